"""
Shared code of the C06 / C07 / C20 checks (pytenet/hamiltonian.py).

* capture: what each constructor hands to `_local_opchains_to_mpo` / `OpGraph.from_opchains` / `OpGraph.from_automaton` /
  `MPO.from_opgraph` is recorded by rebinding those names in the namespace of the module `pytenet.hamiltonian`
  (from this process; nothing in /repo is touched);
* Python-side runners that build the same result dicts as the Lean driver op `ham.build`;
* independent dense references (own spin matrices, ladder operators, Jordan-Wigner matrices) for the oracles.

Parameters are small dyadic rationals, so the float arithmetic of pytenet on them is exact and coefficients / tensors
are compared as exact fractions; entries involving sqrt(2), sqrt(3) (spin-1, Bose-Hubbard tables) are compared with the
model's `a + b sqrt2 + c sqrt3 + e sqrt6` numerically (<= 4 ulp).
"""
import contextlib, itertools, json, math
from fractions import Fraction
import numpy as np
from . import common, oglib
from .common import with_alarm, CaseTimeout
from .oglib import enc, frac, ser_graph

PARAM_VALUES = [0.0, 1.0, -1.0, 0.5, -1.25, 2.0, -0.5, 0.75, 3.0]


# ----------------------------------------------------------------------------- scalar encodings

def enc_x(x):
    """float -> exact JSON coefficient if it is a small dyadic rational, else {'f': x}"""
    if isinstance(x, (complex, np.complexfloating)):
        if x.imag != 0:
            return {'re': enc_x(float(x.real)), 'im': enc_x(float(x.imag))}
        x = x.real
    x = float(x)
    f = Fraction(x)
    if f.denominator <= 2 ** 24 and abs(f.numerator) <= 2 ** 40:
        return int(f) if f.denominator == 1 else [f.numerator, f.denominator]
    return {'f': x}


SQ = (1.0, float(np.sqrt(2.)), float(np.sqrt(3.)), float(np.sqrt(6.)))


def q_value(q):
    return sum(float(frac(c)) * s for c, s in zip(q, SQ))


def reconcile(impl, model):
    """replace, in `impl`, every {'f': x} that sits where the model has a scalar of Q(sqrt2, sqrt3) of (nearly) the
    same value by the model's scalar, so that the structural diff only reports genuine differences"""
    if isinstance(impl, dict) and 'f' in impl and len(impl) == 1:
        if isinstance(model, dict) and 'q' in model:
            v = q_value(model['q'])
            if abs(v - impl['f']) <= 4 * np.spacing(abs(v)):
                return model
        return impl
    if isinstance(impl, dict) and isinstance(model, dict):
        return {k: (reconcile(v, model[k]) if k in model else v) for k, v in impl.items()}
    if isinstance(impl, list) and isinstance(model, list) and len(impl) == len(model):
        return [reconcile(a, b) for a, b in zip(impl, model)]
    return impl


def enc_mat_x(m):
    return [[enc_x(x) for x in row] for row in np.asarray(m)]


def ser_chain(ch):
    return [[int(x) for x in ch.oids], [int(x) for x in ch.qnums], enc_x(ch.coeff), int(ch.istart)]


def ser_graph_x(g):
    return {'nodes': [[int(k), int(n.nid), [int(e) for e in n.eids[0]], [int(e) for e in n.eids[1]], int(n.qnum)]
                      for k, n in g.nodes.items()],
            'edges': [[int(k), int(e.eid), [int(e.nids[0]), int(e.nids[1])], [[int(i), enc_x(c)] for i, c in e.opics]]
                      for k, e in g.edges.items()],
            'term': [int(g.nid_terminal[0]), int(g.nid_terminal[1])]}


def ser_opmap(opmap):
    return [[int(k), enc_mat_x(v)] for k, v in opmap.items()]


def ser_aut(a):
    def const(x):
        return x(0) if callable(x) else x
    return {'nodes': [[int(k), int(n.nid), [int(e) for e in n.eids[0]], [int(e) for e in n.eids[1]], int(n.qnum)]
                      for k, n in a.nodes.items()],
            'edges': [[int(k), int(e.eid), [int(e.nids[0]), int(e.nids[1])], [[int(i), enc_x(c)] for i, c in const(e.opics)],
                       bool(const(e.active))] for k, e in a.edges.items()],
            'term': [int(a.nid_terminal[0]), int(a.nid_terminal[1])]}


def ser_mpo(mpo, nid_map):
    return {'qD': [[int(x) for x in q] for q in mpo.qD],
            'tensors': [[[[[enc_x(x) for x in r] for r in Aab] for Aab in Aa] for Aa in A] for A in mpo.A],
            'nid_map': [[int(k), int(v[0]), int(v[1])] for k, v in mpo.nid_map.items()] if nid_map else []}


FAMS = ['a_dag_l', 'a_ann_l', 'a_dag_a_dag_l', 'a_ann_a_ann_l', 'a_dag_a_ann_l',
        'a_dag_r', 'a_ann_r', 'a_dag_a_dag_r', 'a_ann_a_ann_r', 'a_dag_a_ann_r']


def ser_fams(obj, prefix, nid_of):
    """node-id tables of a `*OpGraphNodes` object (prefix '') or of the MPO they were copied to (prefix 'nids_')"""
    def key(k):
        return [int(x) for x in k] if isinstance(k, tuple) else [int(k)]
    out = {'identity_l': [[int(k), nid_of(v)] for k, v in getattr(obj, prefix + 'identity_l').items()],
           'identity_r': [[int(k), nid_of(v)] for k, v in getattr(obj, prefix + 'identity_r').items()]}
    for f in FAMS:
        out[f] = [[key(k), [[int(kk), nid_of(vv)] for kk, vv in inner.items()]] for k, inner in getattr(obj, prefix + f).items()]
    return out


def err_kind(ex):
    for t, k in ((AssertionError, 'assertion'), (ValueError, 'value'), (KeyError, 'key'), (TypeError, 'type'),
                 (IndexError, 'index'), (RuntimeError, 'runtime')):
        if isinstance(ex, t):
            return k
    raise ex


# ----------------------------------------------------------------------------- capture

class Capture:
    """records the arguments of the hand-over calls made by the constructors of pytenet.hamiltonian"""
    def __init__(self):
        self.events = []

    def first(self, kind):
        for e in self.events:
            if e['kind'] == kind:
                return e
        return None


@contextlib.contextmanager
def capturing():
    import pytenet.hamiltonian as H
    from pytenet.opgraph import OpGraph
    from pytenet.mpo import MPO
    cap = Capture()
    orig = {k: getattr(H, k) for k in ('OpGraph', 'MPO', '_local_opchains_to_mpo', 'MolecularOpGraphNodes', 'SpinMolecularOpGraphNodes')}

    class CapOpGraph(OpGraph):
        @classmethod
        def from_opchains(cls, chains, length, oid_identity):
            cap.events.append({'kind': 'from_opchains', 'chains': [ser_chain(c) for c in chains],
                               'length': int(length), 'oid_identity': int(oid_identity)})
            return OpGraph.from_opchains(chains, length, oid_identity)

        @classmethod
        def from_automaton(cls, autop, length):
            cap.events.append({'kind': 'from_automaton', 'aut': ser_aut(autop), 'length': int(length)})
            return OpGraph.from_automaton(autop, length)

    class CapMPO(MPO):
        @classmethod
        def from_opgraph(cls, qd, graph, opmap, compute_nid_map=False):
            cap.events.append({'kind': 'from_opgraph', 'qd': [int(x) for x in qd], 'graph': ser_graph_x(graph),
                               'opmap': ser_opmap(opmap), 'nid_map': bool(compute_nid_map)})
            return MPO.from_opgraph(qd, graph, opmap, compute_nid_map=compute_nid_map)

    def cap_local(qd, lopchains, size, opmap, oid_identity):
        cap.events.append({'kind': 'local', 'qd': [int(x) for x in qd], 'lopchains': [ser_chain(c) for c in lopchains],
                           'size': int(size), 'opmap': ser_opmap(opmap), 'oid_identity': int(oid_identity)})
        return orig['_local_opchains_to_mpo'](qd, lopchains, size, opmap, oid_identity)

    def cap_nodes(base):
        class CapNodes(base):
            def __init__(self, L):
                super().__init__(L)
                cap.events.append({'kind': 'nodes', 'obj': self})
        return CapNodes

    H.OpGraph = CapOpGraph
    H.MPO = CapMPO
    H._local_opchains_to_mpo = cap_local
    H.MolecularOpGraphNodes = cap_nodes(orig['MolecularOpGraphNodes'])
    H.SpinMolecularOpGraphNodes = cap_nodes(orig['SpinMolecularOpGraphNodes'])
    try:
        yield cap
    finally:
        for k, v in orig.items():
            setattr(H, k, v)


# ----------------------------------------------------------------------------- Python-side runner (same dict as `ham.build`)

def call_constructor(op):
    import pytenet.hamiltonian as H
    m = op['model']
    if m == 'ising':
        return H.ising_mpo(op['L'], *op['params_f'])
    if m == 'xxz':
        return H.heisenberg_xxz_mpo(op['L'], *op['params_f'])
    if m == 'xxz1':
        return H.heisenberg_xxz_spin1_mpo(op['L'], *op['params_f'])
    if m == 'bose':
        return H.bose_hubbard_mpo(op['d'], op['L'], *op['params_f'])
    if m == 'fermi_hubbard':
        return H.fermi_hubbard_mpo(op['L'], *op['params_f'])
    if m == 'linfermi':
        return H.linear_fermionic_mpo(op['coeff_f'], 'c' if op['create'] else op.get('ftype', 'a'))
    if m == 'mol':
        return H.molecular_hamiltonian_mpo(op['tkin_f'], op['vint_f'], optimize=op['optimize'])
    if m == 'spinmol':
        return H.spin_molecular_hamiltonian_mpo(op['tkin_f'], op['vint_f'], optimize=op['optimize'])
    raise RuntimeError('unknown model ' + m)


def call_again_after_mutation(ctor, key):
    """Every third case (decided by a hash of the arguments): call the constructor, modify the returned MPO in place through
    its public interface (zero_qnumbers(), scaling of the tensors), and call it AGAIN with the same arguments; the second
    result is the one that is compared.  On code that builds a fresh object per call this changes nothing; a constructor
    that hands out shared / cached state (seeded change C06-g) returns the modified object."""
    import zlib
    first = ctor()
    if zlib.crc32(json.dumps(key, sort_keys=True, default=str).encode()) % 3 != 0:
        return first
    try:
        first.zero_qnumbers()
        for A in first.A:
            A *= 2
    except Exception:
        pass
    second = ctor()
    if second is first:
        second._verif_note = 'second call returned the very same object as the first'
    return second


def impl_build(op, timeout=120.0):
    """run the constructor under capture and assemble the dict the driver op `ham.build` returns"""
    with capturing() as cap:
        mpo, err = None, None
        try:
            mpo = with_alarm(timeout, lambda: call_again_after_mutation(lambda: call_constructor(op), {k: v for k, v in op.items() if not k.endswith('_f')}))
        except CaseTimeout:
            err = 'fuel'
        except (AssertionError, ValueError, KeyError, TypeError, IndexError, RuntimeError) as ex:
            err = err_kind(ex)
    m = op['model']
    fo = cap.first('from_opgraph')
    out = {'ok': True}

    def res():
        if err is not None or fo is None:
            return {'err': err}
        return {'graph': fo['graph'], 'mpo': ser_mpo(mpo, fo['nid_map']), 'widths': [int(x) for x in mpo.bond_dims]}

    def at_or_err(ev, key):
        return ev[key] if ev is not None else {'err': err}

    if m in ('xxz', 'xxz1', 'bose', 'fermi_hubbard'):
        lo, fc = cap.first('local'), cap.first('from_opchains')
        if lo is None:
            return {'ok': False, 'err': err}
        out.update(qd=lo['qd'], opmap=lo['opmap'], lopchains=lo['lopchains'], oid_identity=lo['oid_identity'],
                   chains=at_or_err(fc, 'chains'), res=res())
        if fc is not None and (fc['length'] != lo['size'] or fc['oid_identity'] != lo['oid_identity']):
            out['handover'] = 'length / identity id passed on differ from the arguments'
        if fo is not None and (fo['qd'] != lo['qd'] or fo['opmap'] != lo['opmap'] or fo['nid_map']):
            out['handover'] = 'qd / opmap / nid_map flag passed on differ from the arguments'
    elif m == 'ising':
        fa = cap.first('from_automaton')
        if fo is not None:
            out.update(qd=fo['qd'], opmap=fo['opmap'])
        out.update(aut=at_or_err(fa, 'aut'), res=res())
        if fa is not None and fa['length'] != op['L']:
            out['handover'] = 'length passed on differs from L'
        if fo is not None and fo['nid_map']:
            out['handover'] = 'nid_map requested'
    elif m == 'linfermi':
        if fo is not None:
            out.update(qd=fo['qd'], opmap=fo['opmap'])
        out.update(graph0=at_or_err(fo, 'graph'), res=res())
        if fo is not None and fo['nid_map']:
            out['handover'] = 'nid_map requested'
    else:
        if fo is not None:
            out.update(qd=fo['qd'], opmap=fo['opmap'])
        if op['optimize']:
            fc = cap.first('from_opchains')
            out.update(chains=at_or_err(fc, 'chains'), res=res())
            L = len(op['tkin_f'])
            if fc is not None and (fc['length'] != L or fc['oid_identity'] != 0):
                out['handover'] = 'length / identity id passed on are wrong'
            if fo is not None and fo['nid_map']:
                out['handover'] = 'nid_map requested'
        else:
            nd = cap.first('nodes')
            if mpo is not None and hasattr(mpo, 'nids_identity_l'):
                fams = ser_fams(mpo, 'nids_', int)
                if nd is not None and fams != ser_fams(nd['obj'], '', lambda n: int(n.nid)):
                    out['handover'] = 'copy_nids tables differ from the node tables'
            elif nd is not None:
                fams = ser_fams(nd['obj'], '', lambda n: int(n.nid))
            else:
                fams = {'err': err}
            out.update(fams=fams, graph0=at_or_err(fo, 'graph'), res=res())
            if fo is not None and not fo['nid_map']:
                out['handover'] = 'nid_map not requested'
    return out


def model_op(op):
    """the JSON op for the driver (drops the float copies of the inputs)"""
    return {k: v for k, v in op.items() if not k.endswith('_f')}


def mk_lattice_op(model, L, params, d=None):
    op = {'op': 'ham.build', 'model': model, 'L': int(L), 'params': [enc(float(p)) for p in params],
          'params_f': [float(p) for p in params]}
    if d is not None:
        op['d'] = int(d)
    return op


def mk_linfermi_op(coeff, create):
    return {'op': 'ham.build', 'model': 'linfermi', 'coeff': [enc(float(c)) for c in coeff], 'coeff_f': [float(c) for c in coeff],
            'create': bool(create)}


def enc_nested(a):
    a = np.asarray(a)
    if a.ndim == 0:
        return enc(float(a))
    return [enc_nested(x) for x in a]


def mk_mol_op(model, tkin, vint, optimize):
    tkin = np.asarray(tkin, dtype=float)
    vint = np.asarray(vint, dtype=float)
    return {'op': 'ham.build', 'model': model, 'tkin': enc_nested(tkin), 'vint': enc_nested(vint), 'optimize': bool(optimize),
            'tkin_f': tkin, 'vint_f': vint}


def shape_sig(im):
    """(bond dimensions, #nodes, #edges) of a result, or the error kind"""
    r = im.get('res') if isinstance(im, dict) else None
    if not isinstance(r, dict):
        return ('err', im.get('err') if isinstance(im, dict) else None)
    if 'err' in r:
        return ('err', r['err'])
    return (tuple(r['widths']), len(r['graph']['nodes']), len(r['graph']['edges']))


def lattice_branches(op, im):
    """which L-dependent branches were taken"""
    out = []
    if op['model'] in ('xxz', 'xxz1', 'bose', 'fermi_hubbard') and im.get('ok'):
        L = op['L']
        for k, c in enumerate(im['lopchains']):
            n = L - len(c[0]) + 1
            out.append(f'tmpl-len{len(c[0])}:' + ('absent' if n <= 0 else ('once' if n == 1 else 'translated')))
            if frac(c[2]) == 0 if not isinstance(c[2], dict) else False:
                out.append('zero-coefficient-template')
        if isinstance(im.get('chains'), list) and not im['chains']:
            out.append('empty-chain-list')
    if op['model'] == 'ising':
        out.append('L=1' if op['L'] == 1 else ('L=2' if op['L'] == 2 else 'L>=3'))
    r = im.get('res') if isinstance(im, dict) else None
    if isinstance(r, dict) and 'err' in r:
        out.append('res-err=' + str(r['err']))
    return out


def run_builds(corr, ops, cls_fn=None, extra_branches=None, keys=None):
    """run every `ham.build` op on the real code and on the model and record the comparison"""
    impls = [impl_build(op) for op in ops]
    replies = oglib.drive_retry([model_op(op) for op in ops])
    for op, im, mo in zip(ops, impls, replies):
        im = reconcile(im, mo)
        br = lattice_branches(op, im) + (extra_branches(op, im) if extra_branches else [])
        if keys is not None:
            im_c = {kk: im.get(kk) for kk in keys if kk in im or kk in mo}
            mo_c = {kk: mo.get(kk) for kk in keys if kk in im or kk in mo}
        else:
            # the tables are observable only if the hand-over to MPO.from_opgraph is reached
            im_c, mo_c = im, {kk: vv for kk, vv in mo.items() if kk in im or kk not in ('qd', 'opmap')}
        cls = cls_fn(op, im) if cls_fn else (op['model'], shape_sig(im))
        nsamp, ndis = len(corr.samples), len(corr.disagreements)
        corr.add(model_op(op), im_c, mo_c, cls=cls, branches=br)
        # keep evidence / replay files small: summarise big replies
        if len(corr.samples) > nsamp:
            corr.samples[-1] = {'op': summarise_op(op), 'reply': summarise(mo)}
        if len(corr.disagreements) > ndis and corr.disagreements[-1] is not None:
            d = corr.disagreements[-1]
            if len(json.dumps(common.jsonable(d))) > 200000:
                d['impl'] = summarise(d['impl']); d['model'] = summarise(d['model'])
    return impls, replies


def summarise_op(op):
    o = model_op(op)
    if 'vint' in o and len(o['tkin']) > 2:
        o = dict(o, vint=f'<{len(o["tkin"])}^4 entries>')
    return o


def summarise(r):
    if not isinstance(r, dict):
        return r
    out = {}
    for k, v in r.items():
        if k == 'res' and isinstance(v, dict) and 'graph' in v:
            out[k] = {'widths': v.get('widths'), 'nodes': len(v['graph']['nodes']), 'edges': len(v['graph']['edges']),
                      'qD': v['mpo']['qD'] if 'mpo' in v else None}
        elif k in ('chains', 'lopchains') and isinstance(v, list):
            out[k] = v[:8] + ([f'... {len(v)} chains'] if len(v) > 8 else [])
        elif k in ('graph0',) and isinstance(v, dict) and 'nodes' in v:
            out[k] = {'nodes': len(v['nodes']), 'edges': len(v['edges']), 'term': v['term']}
        elif k == 'fams' and isinstance(v, dict) and 'err' not in v:
            out[k] = {kk: len(vv) for kk, vv in v.items()}
        elif k == 'opmap' and isinstance(v, list) and len(v) > 6:
            out[k] = f'<{len(v)} tables>'
        else:
            out[k] = v
    return out


# ----------------------------------------------------------------------------- independent references

def kron_all(ms):
    out = np.identity(1)
    for m in ms:
        out = np.kron(out, m)
    return out


def site_op(L, d, ops):
    """kron with identities: ops = {site: matrix}"""
    return kron_all([ops.get(i, np.identity(d)) for i in range(L)])


def spin_half():
    sx = np.array([[0, 0.5], [0.5, 0]], dtype=complex)
    sy = np.array([[0, -0.5j], [0.5j, 0]], dtype=complex)
    sz = np.array([[0.5, 0], [0, -0.5]], dtype=complex)
    return sx, sy, sz


def spin_one():
    s = 1 / math.sqrt(2.0)
    sx = np.array([[0, s, 0], [s, 0, s], [0, s, 0]], dtype=complex)
    sy = np.array([[0, -1j * s, 0], [1j * s, 0, -1j * s], [0, 1j * s, 0]], dtype=complex)
    sz = np.diag([1.0, 0.0, -1.0]).astype(complex)
    return sx, sy, sz


def ref_ising(L, J, h, g):
    X = np.array([[0., 1.], [1., 0.]])
    Z = np.array([[1., 0.], [0., -1.]])
    H = np.zeros((2 ** L, 2 ** L))
    for i in range(L - 1):
        H += J * site_op(L, 2, {i: Z, i + 1: Z})
    for i in range(L):
        H += h * site_op(L, 2, {i: Z}) + g * site_op(L, 2, {i: X})
    return H


def ref_xxz(L, J, D, h, spin1=False):
    sx, sy, sz = spin_one() if spin1 else spin_half()
    d = 3 if spin1 else 2
    H = np.zeros((d ** L, d ** L), dtype=complex)
    for i in range(L - 1):
        H += J * (site_op(L, d, {i: sx, i + 1: sx}) + site_op(L, d, {i: sy, i + 1: sy})) + D * site_op(L, d, {i: sz, i + 1: sz})
    for i in range(L):
        H -= h * site_op(L, d, {i: sz})
    return H


def ref_bose_hubbard(d, L, t, U, mu):
    b = np.zeros((d, d))
    for n in range(1, d):
        b[n - 1, n] = math.sqrt(n)          # b |n> = sqrt(n) |n-1>
    bd = b.T
    n_op = bd @ b
    H = np.zeros((d ** L, d ** L))
    for i in range(L - 1):
        H += -t * (site_op(L, d, {i: bd, i + 1: b}) + site_op(L, d, {i: b, i + 1: bd}))
    for i in range(L):
        H += 0.5 * U * site_op(L, d, {i: n_op @ (n_op - np.identity(d))}) - mu * site_op(L, d, {i: n_op})
    return H


_JW = {}


def jw_ops(n):
    """own Jordan-Wigner matrices, Z string to the right of the operator (pytenet's convention): returns (create, annihilate)"""
    if n not in _JW:
        a = np.array([[0., 1.], [0., 0.]])       # |1> -> |0>
        Z = np.diag([1., -1.])
        I = np.identity(2)
        ann = [kron_all([I] * k + [a] + [Z] * (n - k - 1)) for k in range(n)]
        _JW[n] = ([x.T.copy() for x in ann], ann)
    return _JW[n]


def ref_fermi_hubbard(L, t, U, mu):
    """modes ordered (site, spin) with spin-up first; local basis |n_up n_dn>"""
    cr, an = jw_ops(2 * L)
    dim = 4 ** L
    H = np.zeros((dim, dim))
    num = [cr[k] @ an[k] for k in range(2 * L)]
    for i in range(L - 1):
        for s in (0, 1):
            H += -t * (cr[2 * i + s] @ an[2 * i + 2 + s] + cr[2 * i + 2 + s] @ an[2 * i + s])
    I = np.identity(dim)
    for i in range(L):
        H += U * (num[2 * i] - 0.5 * I) @ (num[2 * i + 1] - 0.5 * I) - mu * (num[2 * i] + num[2 * i + 1])
    return H


def ref_linfermi(coeff, create):
    L = len(coeff)
    cr, an = jw_ops(L)
    ops = cr if create else an
    return sum(coeff[i] * ops[i] for i in range(L))


def ref_molecular(tkin, vint):
    """H = sum t_ij c+_i c_j + 1/2 sum v_ijkl c+_i c+_j c_l c_k"""
    tkin = np.asarray(tkin); vint = np.asarray(vint)
    L = tkin.shape[0]
    cr, an = jw_ops(L)
    dim = 2 ** L
    H = np.zeros((dim, dim), dtype=complex)
    for i in range(L):
        for j in range(L):
            if tkin[i, j] != 0:
                H += tkin[i, j] * (cr[i] @ an[j])
    cc = {(i, j): cr[i] @ cr[j] for i in range(L) for j in range(L)}
    aa = {(l, k): an[l] @ an[k] for l in range(L) for k in range(L)}
    for i in range(L):
        for j in range(L):
            for k in range(L):
                for l in range(L):
                    if vint[i, j, k, l] != 0:
                        H += 0.5 * vint[i, j, k, l] * (cc[i, j] @ aa[l, k])
    return H


def ref_spin_molecular(tkin, vint):
    """H = sum t_ij c+_{i s} c_{j s} + 1/2 sum v_ijkl c+_{i s} c+_{j t} c_{l t} c_{k s}; mode index 2 i + s"""
    tkin = np.asarray(tkin); vint = np.asarray(vint)
    L = tkin.shape[0]
    cr, an = jw_ops(2 * L)
    dim = 4 ** L
    H = np.zeros((dim, dim), dtype=complex)
    for i in range(L):
        for j in range(L):
            if tkin[i, j] != 0:
                for s in (0, 1):
                    H += tkin[i, j] * (cr[2 * i + s] @ an[2 * j + s])
    for i in range(L):
        for j in range(L):
            for k in range(L):
                for l in range(L):
                    if vint[i, j, k, l] != 0:
                        for s in (0, 1):
                            for t in (0, 1):
                                H += 0.5 * vint[i, j, k, l] * (cr[2 * i + s] @ cr[2 * j + t] @ an[2 * l + t] @ an[2 * k + s])
    return H


def check_block_sparse(mpo):
    """own block-sparsity test of every tensor w.r.t. qd / qD; returns None or a description"""
    qd = [int(x) for x in mpo.qd]
    if len(mpo.qD) != len(mpo.A) + 1:
        return 'number of bond charge lists does not match the number of tensors'
    if len(mpo.qD[0]) != 1 or len(mpo.qD[-1]) != 1:
        return 'boundary bonds are not one-dimensional'
    for l, A in enumerate(mpo.A):
        A = np.asarray(A)
        q0 = [int(x) for x in mpo.qD[l]]
        q1 = [int(x) for x in mpo.qD[l + 1]]
        if A.shape != (len(qd), len(qd), len(q0), len(q1)):
            return f'tensor {l} has shape {A.shape}, charges have lengths {(len(qd), len(qd), len(q0), len(q1))}'
        for a, b, i, j in zip(*np.nonzero(A)):
            if qd[a] - qd[b] + q0[i] - q1[j] != 0:
                return f'tensor {l}: entry [{a},{b},{i},{j}] = {A[a, b, i, j]} violates the charge rule'
    return None


def check_dense_charge(mpo, M):
    """every non-zero dense entry changes the total physical charge by the fixed amount qD[-1][0] - qD[0][0]"""
    qd = [int(x) for x in mpo.qd]
    L = len(mpo.A)
    d = len(qd)
    tot = np.zeros(1, dtype=np.int64)
    for _ in range(L):
        tot = (tot[:, None] + np.array(qd, dtype=np.int64)[None, :]).reshape(-1)
    shift = int(mpo.qD[-1][0]) - int(mpo.qD[0][0])
    r, c = np.nonzero(np.abs(M) > 1e-13)
    bad = np.nonzero(tot[r] - tot[c] != shift)[0]
    if len(bad):
        k = bad[0]
        return f'dense entry [{r[k]},{c[k]}] connects total charges {tot[r[k]]} and {tot[c[k]]}, expected shift {shift}'
    return None


def schmidt_ranks(M, d, L):
    """operator Schmidt rank of the dense operator across every cut 1..L-1 (SVD, relative threshold 1e-10)"""
    T = np.asarray(M).reshape([d] * (2 * L))
    out = []
    for k in range(1, L):
        perm = list(range(k)) + list(range(L, L + k)) + list(range(k, L)) + list(range(L + k, 2 * L))
        X = T.transpose(perm).reshape(d ** (2 * k), d ** (2 * (L - k)))
        s = np.linalg.svd(X, compute_uv=False)
        out.append(int(np.sum(s > 1e-10 * s[0])) if s[0] > 0 else 0)
    return out


# ----------------------------------------------------------------------------- complex coefficients (by linearity)

def _coeff_slots(struct, kind):
    """list of (container, index) of all coefficient positions of a chain list / a serialised graph"""
    if kind == 'chains':
        return [(c, 2) for c in struct]
    return [(p, 1) for e in struct['edges'] for p in e[3]]


def combine_complex(m_re, m_im, m_zero, kind):
    """expected structure for a complex input z = x + i y, given the model's results for x, y and 0:
    the structure does not depend on the values and every coefficient is affine in the input"""
    out = json.loads(json.dumps(m_re))
    for (c, k), (ci, ki), (cz, kz) in zip(_coeff_slots(out, kind), _coeff_slots(m_im, kind), _coeff_slots(m_zero, kind)):
        im = frac(ci[ki]) - frac(cz[kz])
        if im != 0:
            c[k] = {'re': c[k], 'im': enc(im)}
    return out


def strip_coeffs(struct, kind):
    out = json.loads(json.dumps(struct))
    for c, k in _coeff_slots(out, kind):
        c[k] = 0
    return out

"""Shared harness code for TDVP (C08, C09) and DMRG (C10): whole calls of evolution.py / minimization.py under uninterpreted kernels."""
import json
import numpy as np
from . import common, exact, gen, kernels, krylov_kernels, mpsgen
from .common import Corr, py_call

BIG = 1 << 34


def too_big(obj):
    """heuristic exactness certificate: every recorded / returned rational has |numerator| <= 2^34 and denominator <= 2^18,
    leaving headroom for the (unobserved) sums of products in between (see DESIGN.md, U-mode exactness)."""
    if isinstance(obj, dict):
        return any(too_big(v) for v in obj.values())
    if isinstance(obj, list):
        if len(obj) == 2 and all(isinstance(x, int) for x in obj) and obj[1] > 1 and (obj[1] & (obj[1] - 1)) == 0:
            return abs(obj[0]) > BIG or obj[1] > (1 << 18)
        return any(too_big(v) for v in obj)
    if isinstance(obj, int):
        return abs(obj) > BIG
    return False


def dagger(o):
    import copy
    r = copy.deepcopy(o)
    r.A = [a.conj().transpose(1, 0, 2, 3).copy() for a in o.A]
    r.qD = [-q for q in o.qD]
    return r


def hermitian_mpo(rng, L, qd, exact_vals=True, maxD=2):
    """random Hermitian MPO o + o^dagger with zero boundary charges"""
    o = mpsgen.rand_mpo(rng, L=L, qd=qd, maxD=maxD, boundary=(0, 0), dtype=str(rng.choice(['float', 'complex'])))
    if not exact_vals:
        from .props.c03 import rnd_like
        o = rnd_like(rng, o, rng.random() < 0.6)
    return o + dagger(o)


def builtin_mpo(rng, L):
    """a built-in model with non-vanishing parameters (the identically-zero operator is outside every property's domain)"""
    import pytenet as ptn
    k = int(rng.integers(0, 3))
    if L == 1:
        return ptn.ising_mpo(L, 1.0, float(rng.choice([0.5, 1])), float(rng.choice([-0.5, 1])))
    if k == 0:
        return ptn.ising_mpo(L, float(rng.choice([1, -0.5, 2])), float(rng.choice([0, 0.5, 1])), float(rng.choice([0, -0.5, 1])))
    if k == 1:
        return ptn.heisenberg_xxz_mpo(L, float(rng.choice([1, -1, 0.5])), float(rng.choice([0, 1, -0.5])), float(rng.choice([0, 0.5])))
    return ptn.bose_hubbard_mpo(2, L, float(rng.choice([1, 0.5])), float(rng.choice([0, 2])), float(rng.choice([0, -0.5])))


def gen_case(rng, kind, tier):
    """(H, psi, params) with exactly representable data"""
    import pytenet as ptn
    L = int(rng.integers(2 if kind in ('tdvp2', 'dmrg2') else 1, 4))
    if kind in ('dmrg1', 'dmrg2') and L < 2 and rng.random() < 0.8:
        L = 2
    if rng.random() < 0.45:
        H = builtin_mpo(rng, L)
        qd = H.qd
        for i in range(len(H.A)):
            if np.iscomplexobj(H.A[i]) and not np.any(H.A[i].imag):
                H.A[i] = H.A[i].real.copy() if rng.random() < 0.3 else H.A[i]
    else:
        qd = mpsgen.rand_qd(rng, 2)
        H = hermitian_mpo(rng, L, qd) if rng.random() < 0.8 else mpsgen.rand_mpo(rng, L=L, qd=qd, maxD=2, boundary=(0, 0))
    psi = mpsgen.rand_mps(rng, L=L, qd=qd, maxD=int(rng.integers(1, 3)), consistent=rng.random() < 0.9,
                          dtype=str(rng.choice(['int', 'float', 'complex'])))
    if rng.random() < 0.2:
        # eigenvector starts: a Hamiltonian that is diagonal in the computational basis (Ising without transverse field) and a
        # product basis state -- every local start vector is an exact eigenvector, so the Lanczos iteration ends at j = 0 with
        # beta[0] = 0 exactly (the early-return branch of lanczos_iteration inside TDVP / DMRG; seeded change C10-g)
        H = ptn.ising_mpo(L, float(rng.choice([1, -0.5, 2])), float(rng.choice([0.5, 1, -1])), 0.0)
        psi = ptn.MPS(H.qd, [[0]] * (L + 1), fill=0.0)
        for i in range(L):
            A = np.zeros((2, 1, 1), dtype=[int, float, complex][int(rng.integers(0, 3))])
            A[int(rng.integers(0, 2)), 0, 0] = [1, 2, -1][int(rng.integers(0, 3))]
            psi.A[i] = A
    p = {'numiter': int(rng.integers(1, 4)), 'numsteps': 1 if rng.random() < 0.8 else 2}
    if kind.startswith('tdvp'):
        p['dt'] = complex(rng.choice([0.5j, 0.25j, -0.5j, 0.5, 0.25 + 0.5j, 1j]))
    if kind.endswith('2'):
        p['tol'] = float(rng.choice([0, 0, 0.25, 0.125]))
    if kind.startswith('dmrg'):
        p['numiter'] = int(rng.integers(2, 4))
    return H, psi, p


def run_impl(kind, H, psi, p, rec):
    import pytenet as ptn
    with kernels.patched(rec, ('bond_ops', 'mps')), krylov_kernels.patched(rec):
        if kind == 'tdvp1':
            r = ptn.integrate_local_singlesite(H, psi, p['dt'], p['numsteps'], numiter_lanczos=p['numiter'])
            return {'mps': mpsgen.enc_mp(psi), 'nrm': exact.enc_real(r), 'wf': mpsgen.is_wf_mps(psi)}
        if kind == 'tdvp2':
            r = ptn.integrate_local_twosite(H, psi, p['dt'], p['numsteps'], numiter_lanczos=p['numiter'], tol_split=p['tol'])
            return {'mps': mpsgen.enc_mp(psi), 'nrm': exact.enc_real(r), 'wf': mpsgen.is_wf_mps(psi)}
        if kind == 'dmrg1':
            en = ptn.calculate_ground_state_local_singlesite(H, psi, p['numsteps'], numiter_lanczos=p['numiter'])
            return {'mps': mpsgen.enc_mp(psi), 'en': exact.enc_reals(en), 'wf': mpsgen.is_wf_mps(psi)}
        en = ptn.calculate_ground_state_local_twosite(H, psi, p['numsteps'], numiter_lanczos=p['numiter'], tol_split=p['tol'])
        return {'mps': mpsgen.enc_mp(psi), 'en': exact.enc_reals(en), 'wf': mpsgen.is_wf_mps(psi)}


def _shard(name, shard, nshards, tier, seed):
    if True:
        c = Corr(name)
        kind = name.split('.')[-1]
        rng = np.random.default_rng([seed, shard, 8, sum(map(ord, name))])
        n = (160 if tier == 'quick' else 6400) // nshards + 1
        ops, impls, sigs = [], [], []
        for _ in range(n):
            try:
                H, psi, p = gen_case(rng, kind, tier)
                op = {'op': 'evo.' + kind, 'H': mpsgen.enc_mp(H), 'psi': mpsgen.enc_mp(psi), 'numiter': p['numiter'], 'numsteps': p['numsteps']}
                if 'dt' in p:
                    op['dt'] = exact.enc_scalar(p['dt'])
                if 'tol' in p:
                    op['tol'] = exact.enc_real(p['tol'])
                Hsnap = mpsgen.snapshot(H)
                dims = tuple(psi.bond_dims)
                # a third of the cases: the uninterpreted vector norm returns 0 / a value below the breakdown threshold at a chosen
                # call, so that the early-return branch of lanczos_iteration is taken INSIDE the sweeps (seeded change C10-g)
                plan = ()
                if rng.random() < 0.35:
                    plan = [None] * int(rng.integers(1, 8)) + [[0.0, 'tiny'][int(rng.integers(0, 2))]]
                    if rng.random() < 0.3:
                        plan += [None] * int(rng.integers(1, 5)) + ['tiny']
                rec = krylov_kernels.KryRecorder(plan)
                r = py_call(lambda: run_impl(kind, H, psi, p, rec))
                if rec.inexact or too_big(rec.calls) or too_big(r):
                    c.skipped += 1
                    continue
                r['H_unchanged'] = bool(mpsgen.snapshot(H) == Hsnap)
                op['kernels'] = rec.calls
            except exact.Inexact:
                c.skipped += 1
                continue
            ops.append(op); impls.append(r)
            nk = {}
            for cl in rec.calls:
                nk[cl['k']] = nk.get(cl['k'], 0) + 1
            sigs.append((kind, len(dims) - 1, dims, p['numiter'], p['numsteps'], str(p.get('dt')), p.get('tol'), r.get('ok'), tuple(sorted(nk.items()))))
        replies = common.drive(ops)
        for op, im, mo, sg in zip(ops, impls, replies, sigs):
            mo = dict(mo)
            mo['H_unchanged'] = True
            br = [kind, f'L={sg[1]}', f'numiter={sg[3]}']
            if not im['ok']:
                br.append('err=' + im['err'])
            c.add(op, im, mo, cls=sg, branches=br)
        return c


_tdvp = _shard
_dmrg = _shard


def corr_tdvp(tier, seed):
    return [common.parallel_shards(_tdvp, nm, tier, seed) for nm in ('evolution.tdvp1', 'evolution.tdvp2')]


def corr_dmrg(tier, seed):
    return [common.parallel_shards(_dmrg, nm, tier, seed) for nm in ('minimization.dmrg1', 'minimization.dmrg2')]

"""
Kernel substitution ("uninterpreted-kernel" mode, DESIGN.md §2/§5).

pytenet looks dense kernels up at call time through module globals (`np.linalg.qr`, `np.linalg.svd`,
`np.linalg.norm`, `np.argsort`, `np.sqrt`, `abs`, ...).  `patched(rec)` rebinds the global `np` of the given
pytenet modules to a forwarding shim whose kernels are deterministic *fakes* returning small dyadic Gaussian
rationals (a function of the input only), and records every call (input, output) into `rec`.  The Lean model is
run with the same answers, so both sides compute exactly.  No change to /repo is needed.
"""
import contextlib, hashlib
from fractions import Fraction
import math
import numpy as np
from . import exact

REAL_NP = np
VALS = [1, -1, 2, -2, 0.5, -0.5, 1, -1, 3, -1.5, 0, 1, 2, -1]
S_MENUS = {
    1: [[2], [1], [0], [0.5], [3]],
    2: [[3, 4], [4, 3], [1, 0], [0, 0], [2, 2], [1, 1], [0.5, 0.5], [0, 2]],
    3: [[2, 1, 2], [2, 2, 1], [1, 0, 0], [0, 0, 0], [4, 4, 2], [1, 1, 1]],
    4: [[1, 1, 1, 1], [4, 2, 2, 1], [1, 2, 2, 4], [2, 0, 0, 0], [1, 1, 1, 0], [0, 0, 0, 0]],
}


def _rng_for(tag, arr):
    a = REAL_NP.ascontiguousarray(REAL_NP.asarray(arr, dtype=complex))
    # value-based: -0.0 and 0.0 are the same input
    a = (a.real + 0.0) + 1j * (a.imag + 0.0)
    h = hashlib.sha256(tag.encode() + repr(a.shape).encode() + a.tobytes()).digest()
    return REAL_NP.random.default_rng(int.from_bytes(h[:8], 'little'))


def _fake_matrix(rng, shape, cplx):
    v = REAL_NP.array(VALS)
    m = rng.choice(v, size=shape)
    if cplx:
        m = m + 1j * rng.choice(v, size=shape) * (rng.random(size=shape) < 0.4)
    return m


class Recorder:
    def __init__(self):
        self.calls = []
        self.inexact = False

    def add(self, k, inp, out):
        self.calls.append({'k': k, 'in': inp, 'out': out})


class _Linalg:
    def __init__(self, rec, opts):
        self._rec = rec
        self._opts = opts

    def __getattr__(self, name):
        return getattr(REAL_NP.linalg, name)

    def qr(self, B, mode='reduced'):
        B = REAL_NP.asarray(B)
        assert mode == 'reduced' and B.ndim == 2
        r, c = B.shape
        k = min(r, c)
        cplx = bool(REAL_NP.iscomplexobj(B) and REAL_NP.any(REAL_NP.imag(B)))   # value-based: the fake is a function of the entries only
        rng = _rng_for('qr', B)
        Q = _fake_matrix(rng, (r, k), cplx)
        Rm = _fake_matrix(rng, (k, c), cplx)
        if self._opts.get('real_diag', True):
            for p in range(k):
                Rm[p, p] = Rm[p, p].real
        try:
            self._rec.add('qr', exact.enc_array(B), {'Q': exact.enc_array(Q), 'R': exact.enc_array(Rm)})
        except exact.Inexact:
            self._rec.inexact = True
        return Q, Rm

    def svd(self, B, full_matrices=True, compute_uv=True):
        B = REAL_NP.asarray(B)
        assert not full_matrices and compute_uv and B.ndim == 2
        r, c = B.shape
        k = min(r, c)
        cplx = bool(REAL_NP.iscomplexobj(B) and REAL_NP.any(REAL_NP.imag(B)))
        rng = _rng_for('svd', B)
        U = _fake_matrix(rng, (r, k), cplx)
        V = _fake_matrix(rng, (k, c), cplx)
        if k in S_MENUS and rng.random() < 0.8:
            S = REAL_NP.array(S_MENUS[k][int(rng.integers(len(S_MENUS[k])))], dtype=float)
        else:
            S = REAL_NP.abs(rng.choice(REAL_NP.array([0, 1, 2, 0.5, 1, 3, 4]), size=k)).astype(float)
        if not REAL_NP.any(B):
            S = REAL_NP.zeros(k)
        try:
            self._rec.add('svd', exact.enc_array(B), {'U': exact.enc_array(U), 'S': exact.enc_reals(S), 'V': exact.enc_array(V)})
        except exact.Inexact:
            self._rec.inexact = True
        return U, S, V

    def norm(self, x, *a, **kw):
        x = REAL_NP.asarray(x)
        if x.ndim != 1 or REAL_NP.iscomplexobj(x):
            # matrix / complex vector norms: only ever compared with 0 or used via the Krylov shim
            return REAL_NP.linalg.norm(x, *a, **kw)
        # vector of singular values: exact true norm when it is a dyadic rational, else an uninterpreted power of two
        try:
            ss = sum(exact.frac(v) ** 2 for v in x)
        except (OverflowError, ValueError):
            self._rec.inexact = True
            return REAL_NP.linalg.norm(x)
        w = None
        if ss == 0:
            w = 0.0
        else:
            num, den = ss.numerator, ss.denominator
            rn, rd = math.isqrt(num), math.isqrt(den)
            if rn * rn == num and rd * rd == den and not self._opts.get('fake_norm_always', False):
                w = float(Fraction(rn, rd))
        if w is None:
            # uninterpreted, but not larger than the true norm (so that the normalised total weight is >= 1
            # and the truncation rule keeps at least one value, as it does with the true norm)
            w = 2.0 ** math.floor(math.log2(math.sqrt(float(ss))))
            if self._opts.get('fake_norm_random', False):
                rng = _rng_for('norm', x)
                w = float(rng.choice([1.0, 2.0, 4.0, 0.5]))
        try:
            self._rec.add('norm', exact.enc_reals(x), exact.enc_real(w))
        except exact.Inexact:
            self._rec.inexact = True
        return w


class NpShim:
    def __init__(self, rec, opts=None):
        self._rec = rec
        self._opts = opts or {}
        self.linalg = _Linalg(rec, self._opts)

    def __getattr__(self, name):
        return getattr(REAL_NP, name)

    def argsort(self, a, *args, **kw):
        out = REAL_NP.argsort(a, *args, **kw)
        arr = REAL_NP.asarray(a)
        if arr.dtype.kind == 'f':
            try:
                self._rec.add('argsort', exact.enc_reals(arr), [int(i) for i in out])
            except exact.Inexact:
                self._rec.inexact = True
        return out

    def sqrt(self, x):
        x = REAL_NP.asarray(x)
        if x.dtype.kind != 'f' or x.ndim != 1:
            return REAL_NP.sqrt(x)
        out = REAL_NP.empty_like(x)
        for i, v in enumerate(x):
            fr = exact.frac(v)
            rn, rd = math.isqrt(fr.numerator), math.isqrt(fr.denominator)
            if fr >= 0 and rn * rn == fr.numerator and rd * rd == fr.denominator:
                out[i] = float(Fraction(rn, rd))
            else:
                # uninterpreted: a dyadic value determined by the input
                rng = _rng_for('sqrt', REAL_NP.array([v]))
                out[i] = float(rng.choice([1.0, 2.0, 0.5, 1.5]))
            try:
                self._rec.add('sqrt', exact.enc_real(v), exact.enc_real(out[i]))
            except exact.Inexact:
                self._rec.inexact = True
        return out


@contextlib.contextmanager
def patched(rec, modules=('bond_ops', 'mps'), opts=None):
    import importlib
    shim = NpShim(rec, opts)
    saved = []
    for m in modules:
        mod = importlib.import_module(f'pytenet.{m}')
        saved.append((mod, mod.np))
        mod.np = shim
    try:
        yield shim
    finally:
        for mod, old in saved:
            mod.np = old


def make_fake_abs(rec):
    """replacement for the builtin `abs` looked up in pytenet.mps (used by MPS.compress)"""
    def fake_abs(z):
        zc = complex(z)
        if zc.imag == 0:
            out = builtins_abs(zc.real)
        else:
            rng = _rng_for('cabs', REAL_NP.array([zc]))
            out = float(rng.choice([1.0, 2.0, 0.5, 4.0]))
        try:
            rec.add('cabs', exact.enc_scalar(zc), exact.enc_real(out))
        except exact.Inexact:
            rec.inexact = True
        return out
    return fake_abs


import builtins as _b
builtins_abs = _b.abs


@contextlib.contextmanager
def patched_abs(rec):
    import pytenet.mps as pm
    had = 'abs' in pm.__dict__
    old = pm.__dict__.get('abs')
    pm.abs = make_fake_abs(rec)
    try:
        yield
    finally:
        if had:
            pm.abs = old
        else:
            del pm.abs

"""
Shared code of the C05 / C16 / C17 checks (symbolic operator layer of pytenet):
JSON encodings, Python-side runners that build the same result dicts as the Lean driver ops `og.*`,
independent references (own path enumeration, own kron sums, own tensor contraction), generators.

All coefficients are small dyadic rationals, all operator matrices small integer matrices, so the
float arithmetic of pytenet on them is exact and results are compared as exact fractions.
"""
import itertools, json
from fractions import Fraction
import numpy as np
from . import common
from .common import py_call, with_alarm, CaseTimeout

COEFFS = [-2.0, -1.0, -0.5, 0.5, 1.0, 2.0, 0.0]
# exactly representable coefficients *close to* 1 (and pairs summing to such a value): a tolerant comparison with 1 in the
# code (`isclose` instead of `!=`) is a difference only here
NEAR_ONE = [1 + 2.0 ** -20, 1 - 2.0 ** -21, 1 + 2.0 ** -30, 1 - 2.0 ** -18]

# wall-clock limit per rewrite step: non-termination (cyclic / inconsistent inputs) is an observable outcome ('fuel');
# a limit hit under machine load is re-checked with a long limit in run_ops before it counts
STEP_TIMEOUT = [3.0]


# ----------------------------------------------------------------------------- encodings

def enc(x):
    """number -> JSON coefficient (int or [num, den]), exact"""
    if isinstance(x, complex) or isinstance(x, np.complexfloating):
        if x.imag != 0:
            raise ValueError('complex coefficient with non-zero imaginary part')
        x = x.real
    f = Fraction(float(x)) if not isinstance(x, (int, Fraction)) else Fraction(x)
    return int(f) if f.denominator == 1 else [f.numerator, f.denominator]


def dec(c):
    """JSON coefficient -> Python float"""
    if isinstance(c, list):
        return c[0] / c[1]
    return float(c)


def frac(c):
    if isinstance(c, list):
        return Fraction(c[0], c[1])
    return Fraction(c)


def enc_mat(m):
    m = np.asarray(m)
    return [[enc(x) for x in row] for row in m]


def ser_graph(g):
    return {'nodes': [[int(k), int(n.nid), [int(e) for e in n.eids[0]], [int(e) for e in n.eids[1]], int(n.qnum)]
                      for k, n in g.nodes.items()],
            'edges': [[int(k), int(e.eid), [int(e.nids[0]), int(e.nids[1])], [[int(i), enc(c)] for i, c in e.opics]]
                      for k, e in g.edges.items()],
            'term': [int(g.nid_terminal[0]), int(g.nid_terminal[1])]}


def raw_of_ser(s):
    """output encoding (with dictionary keys) -> input encoding"""
    return {'nodes': [n[1:] for n in s['nodes']], 'edges': [e[1:] for e in s['edges']], 'term': s['term']}


def build_graph(raw):
    from pytenet.opgraph import OpGraph, OpGraphNode, OpGraphEdge
    nodes = [OpGraphNode(n[0], n[1], n[2], n[3]) for n in raw['nodes']]
    edges = [OpGraphEdge(e[0], e[1], [(i, dec(c)) for i, c in e[2]]) for e in raw['edges']]
    return OpGraph(nodes, edges, raw['term'])


def build_tree_node(t):
    from pytenet.optree import OpTreeNode, OpTreeEdge
    return OpTreeNode([OpTreeEdge(o, dec(c), build_tree_node(s)) for o, c, s in t[1]], t[0])


def build_autop(nodes, edges, term):
    from pytenet.autop import AutOp, AutOpNode, AutOpEdge
    ns = [AutOpNode(n[0], n[1], n[2], n[3]) for n in nodes]
    es = []
    for e in edges:
        op, ac = e[2], e[3]
        if 'const' in op:
            opics = [(i, dec(c)) for i, c in op['const']]
        else:
            tab = [[(i, dec(c)) for i, c in row] for row in op['table']]
            opics = (lambda i, tab=tab: tab[i] if i < len(tab) else tab[-1])
        if 'const' in ac:
            active = ac['const']
        else:
            tb = list(ac['table'])
            active = (lambda i, tb=tb: tb[i] if i < len(tb) else tb[-1])
        es.append(AutOpEdge(e[0], e[1], opics, active))
    return AutOp(ns, es, term)


def opmap_of(enc_opmap):
    return {oid: np.array(m, dtype=float) for oid, m in enc_opmap}


# ----------------------------------------------------------------------------- independent references

def sym_norm(terms):
    """list of (word tuple, Fraction) -> normal form [[word, coeff], ...] sorted by word, zeros dropped"""
    acc = {}
    for w, c in terms:
        acc[tuple(w)] = acc.get(tuple(w), Fraction(0)) + c
    return [[list(w), enc(c)] for w, c in sorted(acc.items()) if c != 0]


def graph_paths(g, direction=1):
    """own path enumeration over the graph structure: dict word -> Fraction (paths from terminal 1-direction to terminal direction)"""
    term = g.nid_terminal[direction]
    memo = {}

    def rec(nid, fuel):
        if fuel == 0:
            return {}
        if nid == term:
            return {(): Fraction(1)}
        key = (nid, fuel)
        if key in memo:
            return memo[key]
        out = {}
        node = g.nodes.get(nid)
        if node is not None:
            for eid in node.eids[direction]:
                e = g.edges.get(eid)
                if e is None:
                    continue
                sub = rec(e.nids[direction], fuel - 1)
                for oid, c in e.opics:
                    fc = Fraction(float(c))
                    for w, k in sub.items():
                        ww = (oid,) + w if direction == 1 else w + (oid,)
                        out[ww] = out.get(ww, Fraction(0)) + fc * k
        memo[key] = out
        return out
    return rec(g.nid_terminal[1 - direction], len(g.nodes) + 1)


def den_graph(g, direction=1):
    return sym_norm(graph_paths(g, direction).items())


def den_chains(chains_raw, L, oid):
    terms = []
    for o, q, c, i in chains_raw:
        npad = L - len(o) - i
        terms.append((tuple([oid] * max(i, 0) + list(o) + [oid] * max(npad, 0)), frac(c)))
    return sym_norm(terms)


def tree_paths(t):
    """[qnum, [[oid, coeff, sub], ...]] -> list of (word, Fraction); a leaf is the empty product"""
    if not t[1]:
        return [((), Fraction(1))]
    out = []
    for o, c, s in t[1]:
        for w, k in tree_paths(s):
            out.append(((o,) + w, frac(c) * k))
    return out


def tree_height(t):
    return 0 if not t[1] else 1 + max(tree_height(s) for _, _, s in t[1])


def den_trees(trees_raw, L, oid):
    terms = []
    for istart, t in trees_raw:
        for w, k in tree_paths(t):
            terms.append((tuple([oid] * max(istart, 0)) + w + tuple([oid] * max(L - istart - len(w), 0)), k))
    return sym_norm(terms)


def table_at(tab, i):
    if 'const' in tab:
        return tab['const']
    t = tab['table']
    return t[i] if i < len(t) else t[-1]


def den_automaton(nodes, edges, term, L):
    """sum over all paths of length L from term[0] to term[1] along active outgoing edges"""
    nd = {}
    for n in nodes:
        nd.setdefault(n[0], n)
    ed = {}
    for e in edges:
        ed.setdefault(e[0], e)
    memo = {}

    def rec(nid, i):
        if i == L:
            return {(): Fraction(1)} if nid == term[1] else {}
        if (nid, i) in memo:
            return memo[(nid, i)]
        out = {}
        n = nd.get(nid)
        if n is not None:
            for eid in n[2]:
                e = ed.get(eid)
                if e is None or not table_at(e[3], i):
                    continue
                sub = rec(e[1][1], i + 1)
                for o, c in table_at(e[2], i):
                    for w, k in sub.items():
                        out[(o,) + w] = out.get((o,) + w, Fraction(0)) + frac(c) * k
        memo[(nid, i)] = out
        return out
    return sym_norm(rec(term[0], 0).items())


def dense_of_sym(sym, opmap, d, L):
    """sum of coeff * kron(opmap[w_k]) with numpy (exact on the harness inputs)"""
    out = np.zeros((d ** L, d ** L))
    for w, c in sym:
        m = np.identity(1)
        for o in w:
            m = np.kron(m, opmap[o])
        out = out + float(frac(c)) * m
    return out


def contract_tensors(Alist):
    """own einsum contraction of MPO tensors A[a, b, i, j] to a dense matrix"""
    cur = np.ones((1, 1, 1))          # (row, col, bond)
    for A in Alist:
        A = np.asarray(A)
        t = np.einsum('rci,abij->racbj', cur, A)
        s = t.shape
        cur = t.reshape(s[0] * s[1], s[2] * s[3], s[4])
    assert cur.shape[2] == 1
    return cur[:, :, 0]


def graph_levels(g):
    """distance of every node from terminal 0 (first visit BFS)"""
    lev = {g.nid_terminal[0]: 0}
    queue = [g.nid_terminal[0]]
    while queue:
        nid = queue.pop(0)
        for eid in g.nodes[nid].eids[1]:
            m = g.edges[eid].nids[1]
            if m not in lev:
                lev[m] = lev[nid] + 1
                queue.append(m)
    return lev


# ----------------------------------------------------------------------------- Python-side runners (same dicts as the driver)

def safe_length(g):
    try:
        return int(with_alarm(0.3 if STEP_TIMEOUT[0] <= 3.0 else 20.0, lambda: g.length))
    except CaseTimeout:
        return {'err': 'fuel'}
    except KeyError:
        return {'err': 'key'}


def graph_state(g):
    return {'graph': ser_graph(g), 'cons': bool(g.is_consistent()), 'length': safe_length(g), 'den': den_graph(g)}


def build_chains(raw, share):
    """OpChain objects of a raw chain list; with `share`, equal entries are the SAME Python object (a user who lists a term
    object several times); the model sees values only"""
    from pytenet.opchain import OpChain
    out, seen = [], {}
    for o, q, c, i in raw:
        key = json.dumps([o, q, c, i])
        if share and key in seen:
            out.append(seen[key]); continue
        ch = OpChain(list(o), list(q), dec(c), i)
        seen[key] = ch
        out.append(ch)
    return out


def chains_raw(chains):
    return [[[int(x) for x in ch.oids], [int(x) for x in ch.qnums], enc(ch.coeff), int(ch.istart)] for ch in chains]


def impl_from_opchains(op):
    from pytenet.opchain import OpChain
    from pytenet.opgraph import OpGraph

    def f():
        chains = build_chains(op['chains'], op.get('share', False))
        g = OpGraph.from_opchains(chains, op['length'], op['oid_identity'])
        st = graph_state(g)
        st['den_ref'] = den_chains(op['chains'], op['length'], op['oid_identity'])
        # the chain list is an operand: it must not be modified, and compiling it a second time gives the same graph
        # (keys present only when violated, so that the reply of the functional model stays comparable)
        if chains_raw(chains) != chains_raw(build_chains(op['chains'], False)):
            st['operand_modified'] = chains_raw(chains)
        elif op.get('share', False) or op.get('twice', False):
            g2 = OpGraph.from_opchains(chains, op['length'], op['oid_identity'])
            if ser_graph(g2) != st['graph']:
                st['second_call_differs'] = ser_graph(g2)
        return st
    return py_call(lambda: with_alarm(10.0, f))


def impl_from_optrees(op):
    from pytenet.optree import OpTree
    from pytenet.opgraph import OpGraph

    def f():
        trees = [OpTree(build_tree_node(t), istart) for istart, t in op['trees']]
        g = OpGraph.from_optrees(trees, op['length'], op['oid_identity'])
        st = graph_state(g)
        st['den_ref'] = den_trees(op['trees'], op['length'], op['oid_identity'])
        return st
    return py_call(lambda: with_alarm(10.0, f))


def impl_from_automaton(op):
    from pytenet.opgraph import OpGraph

    def f():
        a = build_autop(op['nodes'], op['edges'], op['term'])
        cons = bool(a.is_consistent())
        g = OpGraph.from_automaton(a, op['length'])
        st = graph_state(g)
        st['den_ref'] = den_automaton(op['nodes'], op['edges'], op['term'], max(op['length'], 0))
        st['aut_cons'] = cons
        return st
    return py_call(lambda: with_alarm(10.0, f))


def apply_step(g, st):
    """apply one rewrite step to the pytenet graph (in place); fills in the CPython set orders of `add`"""
    k = st['k']
    if k == 'merge_edges':
        g.merge_edges(st['eid1'], st['eid2'], st['direction'])
    elif k == 'simplify':
        g.simplify()
    elif k == 'simplify_step':
        g._simplify_step(st['direction'])
    elif k == 'flip':
        g.flip()
    elif k == 'rename_node':
        g.rename_node_id(st['cur'], st['new'])
    elif k == 'rename_edge':
        g.rename_edge_id(st['cur'], st['new'])
    elif k == 'add':
        other = build_graph(st['other'])
        sn = [int(x) for x in (g.nodes.keys() & other.nodes.keys())]
        se = [int(x) for x in (g.edges.keys() & other.edges.keys())]
        if st.get('with_orders', True):
            st['shared_nids'], st['shared_eids'] = sn, se
        else:
            # the model iterates ascending; remember whether CPython did too
            st['asc'] = bool(sn == sorted(sn) and se == sorted(se))
        snap = ser_graph(other)
        g.add(other)
        # "leaves the other graph untouched": full serialisation (dictionary orders, terminals) and object identity
        return {'other_unchanged': bool(ser_graph(other) == snap), 'shares_objects': bool(shares_objects(g, other))}
    elif k == 'insert_opchain':
        g._insert_opchain(st['nid_start'], st['nid_end'], st['oids'], [dec(c) for c in st['coeffs']], st['qnums'], st['direction'])
    else:
        raise RuntimeError('unknown step ' + k)


def shares_objects(g, other):
    """do the two graphs share node / edge objects or their mutable lists (identity, not equality)"""
    def objs(x):
        out = set()
        for n in x.nodes.values():
            out.add(id(n)); out.add(id(n.eids[0])); out.add(id(n.eids[1]))
        for e in x.edges.values():
            out.add(id(e)); out.add(id(e.nids)); out.add(id(e.opics))
        out.add(id(x.nid_terminal)); out.add(id(x.nodes)); out.add(id(x.edges))
        return out
    return bool(objs(g) & objs(other))


def err_kind(ex):
    for t, k in ((AssertionError, 'assertion'), (ValueError, 'value'), (KeyError, 'key'), (TypeError, 'type'),
                 (IndexError, 'index'), (RuntimeError, 'runtime')):
        if isinstance(ex, t):
            return k
    raise ex


def impl_rewrite(op):
    """run the history on the real code; the history ends at the first exception (object is left half-mutated)"""
    try:
        g = with_alarm(5.0, lambda: build_graph(op['graph']))
    except (AssertionError, ValueError, KeyError, TypeError, IndexError, RuntimeError) as ex:
        return {'ok': False, 'err': err_kind(ex)}
    out = {'ok': True, 'init': graph_state(g), 'steps': []}
    for st in op['steps']:
        extra = None
        try:
            extra = with_alarm(STEP_TIMEOUT[0], lambda: apply_step(g, st))
        except CaseTimeout:
            out['steps'].append({'err': 'fuel'})        # non-termination (cyclic / inconsistent input)
            break
        except (AssertionError, ValueError, KeyError, TypeError, IndexError, RuntimeError) as ex:
            out['steps'].append({'err': err_kind(ex)})
            break
        stt = graph_state(g)
        if extra:
            stt.update(extra)
        out['steps'].append(stt)
    return out


def impl_from_opgraph(op):
    from pytenet.mpo import MPO

    def f():
        g = build_graph(op['graph'])
        if op.get('flip'):
            g.flip()
        opmap = opmap_of(op['opmap'])
        mpo = MPO.from_opgraph(op['qd'], g, opmap, compute_nid_map=op['nid_map'])
        r = {'qD': [[int(x) for x in q] for q in mpo.qD],
             'tensors': [[[[[enc(x) for x in r] for r in Aab] for Aab in Aa] for Aa in A] for A in mpo.A],
             'nid_map': [[int(k), int(v[0]), int(v[1])] for k, v in mpo.nid_map.items()] if op['nid_map'] else []}
        try:
            r['dense'] = enc_mat(mpo.as_matrix())
        except AssertionError:
            r['dense'] = {'err': 'assertion'}
        except IndexError:
            r['dense'] = {'err': 'index'}
        return r
    return py_call(lambda: with_alarm(10.0, f))


def impl_den(op):
    def f():
        g = build_graph(op['graph'])
        st = graph_state(g)
        st['den0'] = den_graph(g, 0)
        st['denF'] = st['den']
        return st
    return py_call(lambda: with_alarm(10.0, f))


def impl_dense(op):
    def f():
        g = build_graph(op['graph'])
        opmap = opmap_of(op['opmap'])
        r = {}
        for d in (1, 0):
            try:
                m = g.as_matrix(opmap, d)
                if np.isscalar(m) or np.asarray(m).shape != (op['dim'], op['dim']):
                    # no path at all: pytenet returns the integer 0 (or a matrix of another size)
                    m = np.asarray(m) + np.zeros((op['dim'], op['dim']))
                r[f'dense{d}'] = enc_mat(m)
            except KeyError:
                r[f'dense{d}'] = {'err': 'key'}
        return r
    return py_call(lambda: with_alarm(10.0, f))


def impl_chain(op):
    from pytenet.opchain import OpChain

    def ser(ch):
        return [[int(x) for x in ch.oids], [int(x) for x in ch.qnums], enc(ch.coeff), int(ch.istart)]

    def f():
        o, q, c, i = op['chain']
        ch = OpChain(o, q, dec(c), i)
        opmap = opmap_of(op['opmap'])
        r = {'chain': ser(ch), 'len': int(ch.length)}
        try:
            r['padded'] = ser(ch.padded(op['length'], op['oid_identity']))
        except AssertionError:
            r['padded'] = {'err': 'assertion'}
        try:
            r['mat'] = enc_mat(ch.as_matrix(opmap))
            ref = dec(c) * np.identity(1)
            for x in o:
                ref = np.kron(ref, opmap[x])
            r['dense'] = enc_mat(ref)
        except KeyError:
            r['mat'] = {'err': 'key'}
            r['dense'] = {'err': 'key'}
        return r
    return py_call(f)


def impl_tree(op):
    from pytenet.optree import OpTree

    def f():
        t = OpTree(build_tree_node(op['tree']), 0)
        opmap = opmap_of(op['opmap'])
        d = op['d']
        h = t.height()
        r = {'height': int(h), 'paths': sym_norm(tree_paths(op['tree']))}
        try:
            r['mat'] = enc_mat(t.as_matrix(opmap))
        except KeyError:
            r['mat'] = {'err': 'key'}
        except AssertionError:
            r['mat'] = {'err': 'assertion'}
        # reference: sum over root-to-leaf paths, each padded after its leaf up to the tree height
        try:
            ref = np.zeros((d ** h, d ** h))
            for w, k in tree_paths(op['tree']):
                m = np.identity(1)
                for o in w:
                    m = np.kron(m, opmap[o])
                m = np.kron(m, np.identity(d ** (h - len(w))))
                ref = ref + float(k) * m
            # the identity padding of `denTreeBare` uses opmap[oid_identity]
            if any(len(w) < h for w, _ in tree_paths(op['tree'])):
                _ = opmap[op['oid_identity']]
            r['dense'] = enc_mat(ref)
        except KeyError:
            r['dense'] = {'err': 'key'}
        return r
    return py_call(f)


IMPL = {'og.from_opchains': impl_from_opchains, 'og.from_optrees': impl_from_optrees,
        'og.from_automaton': impl_from_automaton, 'og.rewrite': impl_rewrite, 'og.from_opgraph': impl_from_opgraph,
        'og.den': impl_den, 'og.dense': impl_dense, 'og.chain': impl_chain, 'og.tree': impl_tree}


def drive_retry(ops, tries=6):
    """common.drive, retried when the driver binary is momentarily missing (another lake build relinking it)"""
    import time
    for k in range(tries):
        try:
            return common.drive(ops)
        except (FileNotFoundError, PermissionError, OSError, common.ToolError):
            if k == tries - 1:
                raise
            time.sleep(3.0 + 2.0 * k)


def run_ops(corr, ops, metas):
    """run every op on the real code (first: `add` steps get their set orders filled in), then on the model; record.
    meta: 'cls' (value or callable(op, impl, branches)), 'branches', 'cmp_keys' (value or callable(op))"""
    impls = []
    for op in ops:
        try:
            impls.append(IMPL[op['op']](op))
        except CaseTimeout:
            impls.append({'ok': False, 'err': 'fuel'})
    replies = drive_retry(ops)
    # a Python-side time-out that the model does not confirm as non-termination: run again with a long limit
    for i, (op, im, mo) in enumerate(zip(ops, impls, replies)):
        if 'fuel' in json.dumps(im) and json.dumps(im, sort_keys=True) != json.dumps(mo, sort_keys=True) \
                and 'fuel' not in json.dumps(mo):
            STEP_TIMEOUT[0] = 120.0
            try:
                # (a step that timed out may not have recorded its CPython set orders: the model has to see the orders of
                # the second run, otherwise it iterates ascending — a false disagreement under heavy machine load)
                op2 = json.loads(json.dumps(op))
                impls[i] = IMPL[op['op']](op2)
                if json.dumps(op2, sort_keys=True) != json.dumps(op, sort_keys=True):
                    ops[i] = op2
                    replies[i] = drive_retry([op2])[0]
            except CaseTimeout:
                pass
            finally:
                STEP_TIMEOUT[0] = 3.0
    for op, im, mo, meta in zip(ops, impls, replies, metas):
        br = list(meta.get('branches', []))
        if isinstance(mo, dict) and 'branches' in mo:
            br += ['site:' + b for b in mo.pop('branches')]
        if not im.get('ok'):
            br.append('err=' + str(im.get('err')))
        br += branch_sig(op, im)
        cmp_keys = meta.get('cmp_keys')
        if callable(cmp_keys):
            cmp_keys = cmp_keys(op)
        im_c, mo_c = im, mo
        if cmp_keys is not None:
            im_c = project(im, cmp_keys)
            mo_c = project(mo, cmp_keys)
        cls = meta.get('cls')
        if callable(cls):
            cls = cls(op, im, br)
        corr.add(op, im_c, mo_c, cls=cls, branches=br)
    return impls, replies


def project(r, keys):
    """keep only some observables of a rewrite history (used when CPython's set order is not ascending)"""
    if not isinstance(r, dict) or not r.get('ok') or 'steps' not in r:
        return r
    def pr(s):
        return {k: s[k] for k in keys if k in s} if 'err' not in s else s
    return {'ok': True, 'init': r['init'], 'steps': [pr(s) for s in r['steps']]}


def branch_sig(op, im):
    """branch signature of a case, read off the real code's result"""
    out = []
    if not im.get('ok'):
        return out
    if op['op'] == 'og.from_opchains':
        nz = [c for c in op['chains'] if frac(c[2]) != 0]
        if len(nz) < len(op['chains']):
            out.append('zero-coeff-filtered')
        if len({json.dumps(c[:2] + [c[3]]) for c in nz}) < len(nz):
            out.append('duplicate-chain')
        if not im['den']:
            out.append('all-cancel')
    if op['op'] == 'og.rewrite':
        prev = im['init']
        for st, s in zip(op['steps'], im['steps']):
            if 'err' in s:
                out.append(st['k'] + ':err=' + s['err'])
                break
            dn = len(prev['graph']['nodes']) - len(s['graph']['nodes'])
            de = len(prev['graph']['edges']) - len(s['graph']['edges'])
            if st['k'] == 'merge_edges':
                out.append('merge:parallel' if dn == 0 else 'merge:nodes')
            elif st['k'] == 'simplify':
                out.append('simplify:noop' if de == 0 else ('simplify:edges-only' if dn == 0 else 'simplify:nodes+edges'))
            elif st['k'] == 'add':
                sn, se = st.get('shared_nids', []), st.get('shared_eids', [])
                out.append('add:' + ('nid-collide' if sn else 'nid-disjoint') + ',' + ('eid-collide' if se else 'eid-disjoint'))
                if sn != sorted(sn) or se != sorted(se):
                    out.append('add:set-order-not-ascending')
            else:
                out.append(st['k'])
            prev = s
    return out


# ----------------------------------------------------------------------------- generators

def rand_opmap(rng, oids, d, oid_identity=None, deltas=None, qd=None):
    """small integer matrices; identity for the identity id; with charges: support restricted to qd[a]-qd[b] == delta"""
    out = []
    for o in oids:
        if oid_identity is not None and o == oid_identity:
            m = np.identity(d, dtype=int)
        else:
            m = rng.integers(-2, 3, size=(d, d))
            if deltas is not None:
                for a in range(d):
                    for b in range(d):
                        if qd[a] - qd[b] != deltas.get(o, 0):
                            m[a, b] = 0
        out.append([int(o), [[int(x) for x in r] for r in m]])
    return out


DELTA = {0: 0, 1: 1, 2: -1, 3: 0}     # operator charges of the ids 0..3 in charged mode (qd = [0, 1])


def gen_chain(rng, L, nids, charged, coeffs=COEFFS):
    for _ in range(50):
        istart = int(rng.integers(0, L))
        n = int(rng.integers(1, L - istart + 1))
        oids = [int(x) for x in rng.integers(0, nids, size=n)]
        if charged:
            q = [0]
            for o in oids:
                q.append(q[-1] + DELTA.get(o, 0))
            if q[-1] != 0:
                continue
        else:
            q = [0] * (n + 1)
        return [oids, q, enc(float(rng.choice(coeffs))), istart]
    return [[0], [0, 0], enc(float(rng.choice(coeffs))), 0]


def gen_chain_list(rng, L=None, kind=None):
    """returns (chains, L, oid_identity, charged, tag)"""
    if L is None:
        L = int(rng.integers(1, 6))
    kind = int(rng.integers(0, 10)) if kind is None else kind
    charged = bool(rng.integers(0, 3) == 0)
    nids = int(rng.integers(2, 5))
    n = int(rng.integers(1, 7))
    tag = 'random'
    chains = [gen_chain(rng, L, nids, charged) for _ in range(n)]
    if kind == 0:
        tag = 'single'
        c = float(rng.choice([-2.0, -0.5, 0.5, 2.0, 1.0]))
        if rng.random() < 0.3:
            c = float(rng.choice(NEAR_ONE)); tag = 'single-near-one'
        chains = [gen_chain(rng, L, nids, charged)]
        chains[0][2] = enc(c)
    elif kind == 1:
        tag = 'duplicates'
        chains = chains + [json.loads(json.dumps(chains[int(i)])) for i in rng.integers(0, len(chains), size=int(rng.integers(1, 4)))]
    elif kind == 2:
        tag = 'cancelling'
        extra = []
        for i in rng.integers(0, len(chains), size=int(rng.integers(1, 3))):
            c = json.loads(json.dumps(chains[int(i)]))
            c[2] = enc(-frac(c[2]))
            extra.append(c)
        chains = chains + extra
        rng.shuffle(chains)
        chains = [list(c) for c in chains]
    elif kind == 3:
        tag = 'same-ops-different-coeff'
        base = gen_chain(rng, L, nids, charged)
        chains = []
        for _ in range(int(rng.integers(2, 5))):
            c = json.loads(json.dumps(base))
            c[2] = enc(float(rng.choice(COEFFS)))
            chains.append(c)
        if rng.random() < 0.3:
            # one term written twice, coefficients summing to a value close to 1
            tag = 'same-ops-sum-near-one'
            t = float(rng.choice(NEAR_ONE))
            chains = [json.loads(json.dumps(base)), json.loads(json.dumps(base))]
            chains[0][2] = enc(0.5); chains[1][2] = enc(t - 0.5)
    elif kind == 4:
        tag = 'full-length'
        chains = []
        for _ in range(n):
            oids = [int(x) for x in rng.integers(0, nids, size=L)]
            chains.append([oids, [0] * (L + 1), enc(float(rng.choice(COEFFS))), 0])
        charged = False
    elif kind in (5, 6) and L >= 2:
        tag = 'bipartite'
        # prefixes x suffixes with some pairs missing: vertex covers with both U and V vertices
        cut = int(rng.integers(1, L))
        A = [[int(x) for x in rng.integers(0, nids, size=cut)] for _ in range(int(rng.integers(1, 4)))]
        B = [[int(x) for x in rng.integers(0, nids, size=L - cut)] for _ in range(int(rng.integers(1, 4)))]
        chains = []
        for a in A:
            for b in B:
                if rng.random() < 0.75:
                    chains.append([a + b, [0] * (L + 1), enc(float(rng.choice(COEFFS[:6]))), 0])
        if not chains:
            chains = [[A[0] + B[0], [0] * (L + 1), enc(2.0), 0]]
        for _ in range(int(rng.integers(0, 3))):
            chains.append(gen_chain(rng, L, nids, False))
        charged = False
    return chains, L, 0, charged, tag


def exhaustive_chain_lists(L, maxchains, nids, coeffs):
    """all chain lists (all-zero charges) on L sites with ids < nids, coefficients from `coeffs`"""
    single = []
    for istart in range(L):
        for n in range(1, L - istart + 1):
            for oids in itertools.product(range(nids), repeat=n):
                single.append((list(oids), [0] * (n + 1), istart))
    withc = [[o, q, enc(c), i] for (o, q, i) in single for c in coeffs]
    for k in range(1, maxchains + 1):
        for combo in itertools.product(withc, repeat=k):
            yield [list(c) for c in combo]


def gen_layered_graph(rng, L=None, idbase=None, charged=None, maxw=3, dangling=False, twins=None, term_twin=None, eidbase=None):
    """
    random consistent layered graph as raw input encoding.
    parallel edges, multi-operator edges (also repeated ids inside one edge and cancelling coefficients),
    node charges, arbitrary (also negative) ids, shuffled dictionary and edge-list orders.
    """
    if L is None:
        L = int(rng.integers(1, 5))
    if twins is None:
        twins = bool(rng.random() < 0.5)
    if term_twin is None:
        term_twin = bool(rng.random() < 0.12)
    widths = [1] + [int(rng.integers(1, maxw + 1)) for _ in range(L - 1)] + [1]
    nn = sum(widths)
    lo = int(rng.integers(-6, 4)) if idbase is None else idbase
    nids = [int(x) for x in rng.permutation(np.arange(lo, lo + nn + int(rng.integers(0, 4))))[:nn]]
    layers, k = [], 0
    for w in widths:
        layers.append(nids[k:k + w]); k += w
    if charged is None:
        charged = bool(rng.integers(0, 3) == 0)
    qn = {}
    for li, lay in enumerate(layers):
        for n in lay:
            qn[n] = int(rng.integers(-1, 2)) if (charged and 0 < li < L) else 0
    pool_small = bool(rng.integers(0, 2))
    pairs = []
    for li in range(L):
        a, b = layers[li], layers[li + 1]
        conn = set()
        for y in b:
            conn.add((a[int(rng.integers(0, len(a)))], y))
        for x in a:
            if not any(p[0] == x for p in conn):
                conn.add((x, b[int(rng.integers(0, len(b)))]))
        for x in a:
            for y in b:
                if rng.random() < 0.25:
                    conn.add((x, y))
        conn = sorted(conn)
        for (x, y) in conn:
            pairs.append((x, y))
            while rng.random() < 0.25:
                pairs.append((x, y))      # parallel edge
    if dangling and L >= 2:
        # drop all outgoing edges of one inner node, or all incoming ones
        li = int(rng.integers(1, L))
        v = layers[li][int(rng.integers(0, len(layers[li])))]
        side = int(rng.integers(0, 2))
        pairs = [p for p in pairs if p[1 - side] != v]
    ne = len(pairs)
    elo = int(rng.integers(-4, 12)) if eidbase is None else eidbase
    eids = [int(x) for x in rng.permutation(np.arange(elo, elo + ne + int(rng.integers(0, 4))))[:ne]]
    edges = []
    for eid, (x, y) in zip(eids, pairs):
        delta = qn[y] - qn[x]
        if charged:
            cand = {0: [0, 3], 1: [1], -1: [2]}.get(delta, [5])
        else:
            cand = [0, 1, 2] if pool_small else [0, 1, 2, 3]
        nop = 1 if rng.random() < 0.7 else int(rng.integers(2, 4))
        opics = []
        for _ in range(nop):
            opics.append([int(cand[int(rng.integers(0, len(cand)))]), enc(float(rng.choice([-1.0, 0.5, 1.0, 1.0, 2.0, -0.5])))])
        if rng.random() < 0.1 and opics:
            opics.append([opics[0][0], enc(-frac(opics[0][1]))])      # cancels inside the edge
        edges.append([eid, [x, y], opics])
    if twins and L >= 2:
        # duplicate an inner node that has a single edge on one side, together with that edge (same operators,
        # same charge): the pair is a candidate for a node merge
        for _ in range(int(rng.integers(1, 3))):
            li = int(rng.integers(1, L))
            side = int(rng.integers(0, 2))           # 0: single in-edge is copied, 1: single out-edge is copied
            cands = [v for v in layers[li] if sum(1 for e in edges if e[1][1 - side] == v) == 1]
            if not cands:
                continue
            v = cands[int(rng.integers(0, len(cands)))]
            e0 = [e for e in edges if e[1][1 - side] == v][0]
            v2 = max(nids) + 1
            nids.append(v2); layers[li].append(v2); qn[v2] = qn[v]
            ne2 = max([e[0] for e in edges]) + 1
            edges.append([ne2, [e0[1][0], v2] if side == 0 else [v2, e0[1][1]], [list(p) for p in e0[2]]])
            # the other side of the twin: copies of some of the original's edges or fresh ones
            others = [e for e in edges if e[1][side] == v]
            for e in others:
                if rng.random() < 0.7 or e is others[0]:
                    ne2 += 1
                    if rng.random() < 0.6:
                        opics = [list(p) for p in e[2]]
                    else:
                        ends = (v2, e[1][1]) if side == 0 else (e[1][0], v2)
                        cand = {0: [0, 3], 1: [1], -1: [2]}.get(qn[ends[1]] - qn[ends[0]], [5]) if charged else [0, 1, 2]
                        opics = [[int(cand[int(rng.integers(0, len(cand)))]), enc(float(rng.choice([0.5, 1.0, 2.0])))]]
                    edges.append([ne2, [v2, e[1][1]] if side == 0 else [e[1][0], v2], opics])
        nn = len(nids)
    if term_twin:
        # an unconnected twin of a terminal node: a source node (no incoming edges) copying the start node's
        # outgoing edge(s), or a sink node copying the end node's incoming edge(s); with a single copied edge the
        # pair (terminal, twin) is a node-merge candidate in which the terminal must survive
        for side in ([0, 1] if rng.random() < 0.3 else [int(rng.integers(0, 2))]):
            tnode = layers[0][0] if side == 0 else layers[-1][0]
            tes = [e for e in edges if e[1][side] == tnode]
            if not tes:
                continue
            v2 = max(nids) + 1
            nids.append(v2); qn[v2] = qn[tnode]
            ne2 = max([e[0] for e in edges])
            for e in (tes if rng.random() < 0.5 else tes[:1]):
                ne2 += 1
                edges.append([ne2, [v2, e[1][1]] if side == 0 else [e[1][0], v2], [list(p) for p in e[2]]])
            if rng.random() < 0.5:
                # the twin has a further upstream node of its own (an unconnected chain)
                v3 = v2 + 1
                nids.append(v3); qn[v3] = qn[v2]
                ne2 += 1
                edges.append([ne2, [v3, v2] if side == 0 else [v2, v3], [[int(rng.integers(0, 3)) if not charged else 0, enc(1.0)]]])
        nn = len(nids)
    order = [int(i) for i in rng.permutation(len(edges))]
    edges = [edges[i] for i in order]
    nodes = []
    for n in [nids[int(i)] for i in rng.permutation(nn)]:
        ein = [e[0] for e in edges if e[1][1] == n]
        eout = [e[0] for e in edges if e[1][0] == n]
        ein = [ein[int(i)] for i in rng.permutation(len(ein))]
        eout = [eout[int(i)] for i in rng.permutation(len(eout))]
        nodes.append([n, ein, eout, qn[n]])
    return {'nodes': nodes, 'edges': edges, 'term': [layers[0][0], layers[-1][0]]}, L, charged


def mergeable_pairs(g):
    """all (eid1, eid2, direction) that satisfy the conditions asserted by merge_edges"""
    out = []
    for d in (0, 1):
        for node in g.nodes.values():
            eids = node.eids[1 - d]
            for e1, e2 in itertools.permutations(eids, 2):
                a, b = g.edges[e1], g.edges[e2]
                if a.nids[1 - d] == b.nids[1 - d]:
                    out.append((e1, e2, d, 'parallel'))
                elif a.opics == b.opics:
                    n1, n2 = g.nodes[a.nids[1 - d]], g.nodes[b.nids[1 - d]]
                    # (the second edge's upstream node is absorbed: it must not be a terminal node)
                    # and a terminal node cannot acquire upstream edges
                    if len(n1.eids[d]) == 1 and len(n2.eids[d]) == 1 and n1.qnum == n2.qnum \
                            and b.nids[1 - d] not in g.nid_terminal \
                            and not (n1.nid in g.nid_terminal and n2.eids[1 - d]):
                        out.append((e1, e2, d, 'nodes'))
    return out


def gen_history(rng, maxlen, L=None, allow_bad=True):
    """
    a random consistent graph and an adaptively generated rewrite history (valid steps chosen by looking at the
    current state of the real object; optionally one invalid step at the end).  Returns the og.rewrite op.
    """
    raw, L, charged = gen_layered_graph(rng, L=L, dangling=bool(rng.integers(0, 12) == 0))
    g = build_graph(raw)
    steps = []
    n = int(rng.integers(1, maxlen + 1))
    for s in range(n):
        r = rng.random()
        st = None
        if r < 0.22:
            st = {'k': 'simplify'}
        elif r < 0.45:
            mp = mergeable_pairs(g)
            if mp:
                e1, e2, d, _ = mp[int(rng.integers(0, len(mp)))]
                st = {'k': 'merge_edges', 'eid1': int(e1), 'eid2': int(e2), 'direction': int(d)}
            else:
                st = {'k': 'simplify_step', 'direction': int(rng.integers(0, 2))}
        elif r < 0.55:
            st = {'k': 'flip'}
        elif r < 0.67:
            cur = list(g.nodes.keys())[int(rng.integers(0, len(g.nodes)))]
            new = int(rng.integers(-8, 16))
            while new in g.nodes:
                new += 1
            st = {'k': 'rename_node', 'cur': int(cur), 'new': int(new)}
        elif r < 0.79 and g.edges:
            cur = list(g.edges.keys())[int(rng.integers(0, len(g.edges)))]
            new = int(rng.integers(-8, 24))
            while new in g.edges:
                new += 1
            st = {'k': 'rename_edge', 'cur': int(cur), 'new': int(new)}
        elif r < 0.95:
            # id ranges of the operand: 1/3 colliding with the current graph (node and edge ids), 1/3 node ids disjoint
            # but edge ids colliding, 1/3 completely disjoint (node AND edge ids beyond both ranges)
            mode = int(rng.integers(0, 3))
            emax = max(g.edges.keys(), default=0)
            if mode == 0:
                base = min(g.nodes.keys()) + int(rng.integers(-2, 3)) if rng.random() < 0.8 else None
                ebase = None
            elif mode == 1:
                base = max(g.nodes.keys()) + 1 + int(rng.integers(0, 3))
                ebase = min(g.edges.keys(), default=0) + int(rng.integers(-1, 2))
            else:
                base = max(g.nodes.keys()) + 1 + int(rng.integers(0, 3))
                ebase = emax + 1 + int(rng.integers(0, 3))
            other, _, _ = gen_layered_graph(rng, L=L, idbase=base, charged=charged, eidbase=ebase)
            st = {'k': 'add', 'other': other}
        else:
            st = {'k': 'simplify_step', 'direction': int(rng.integers(0, 2))}
        try:
            apply_step(g, st)
        except Exception:
            steps.append(st)
            break
        steps.append(st)
    else:
        if allow_bad and rng.random() < 0.08:
            steps.append(gen_bad_step(rng, g))
    # the orders are recomputed when the history is run
    for st in steps:
        st.pop('shared_nids', None); st.pop('shared_eids', None)
    return {'op': 'og.rewrite', 'graph': raw, 'steps': steps}, L, charged


def gen_bad_step(rng, g):
    k = int(rng.integers(0, 6))
    nk, ek = list(g.nodes.keys()), list(g.edges.keys())
    if k == 0 and len(ek) >= 2:
        e1, e2 = [int(ek[int(i)]) for i in rng.permutation(len(ek))[:2]]
        return {'k': 'merge_edges', 'eid1': e1, 'eid2': e2, 'direction': int(rng.integers(0, 2))}
    if k == 1 and ek:
        e = int(ek[int(rng.integers(0, len(ek)))])
        return {'k': 'merge_edges', 'eid1': e, 'eid2': e, 'direction': int(rng.integers(0, 2))}
    if k == 2:
        return {'k': 'rename_node', 'cur': int(nk[0]), 'new': int(nk[-1])}
    if k == 3 and ek:
        return {'k': 'rename_edge', 'cur': int(ek[0]) + 1000, 'new': 5}
    if k == 4 and ek:
        return {'k': 'merge_edges', 'eid1': int(ek[0]), 'eid2': int(ek[-1]), 'direction': 2}
    return {'k': 'rename_node', 'cur': 12345, 'new': 3}


def gen_tree(rng, remaining, nids=4, qmode=0, depth=0, pleaf=0.3):
    """[qnum, children]; nodes at depth == remaining carry charge 0 (they are identified with the end node)"""
    if remaining == 0 or (depth > 0 and rng.random() < pleaf) or (depth == 0 and rng.random() < 0.07):
        # (also at depth 0: a tree consisting of a single leaf, the empty product)
        q = 0 if (qmode == 0 or remaining == 0 or depth == 0) else int(rng.integers(-1, 2))
        return [q, []]
    nb = int(rng.integers(1, 4))
    ch = []
    for _ in range(nb):
        ch.append([int(rng.integers(0, nids)), enc(float(rng.choice([-2.0, -1.0, -0.5, 0.5, 1.0, 2.0]))),
                   gen_tree(rng, remaining - 1, nids, qmode, depth + 1, pleaf)])
    q = 0 if (qmode == 0 or depth == 0) else int(rng.integers(-1, 2))
    return [q, ch]


def gen_tree_list(rng, L=None):
    if L is None:
        L = int(rng.integers(1, 6))
    n = int(rng.integers(1, 4))
    qmode = int(rng.integers(0, 4) == 0)
    trees = []
    for _ in range(n):
        istart = int(rng.integers(0, L))
        t = gen_tree(rng, L - istart, qmode=qmode, pleaf=float(rng.choice([0.15, 0.3, 0.5])))
        if istart > 0 and qmode:
            t[0] = int(rng.integers(-1, 2))
        trees.append([istart, t])
    return trees, L


def gen_automaton(rng, L=None, ensure_path=True):
    """nodes (with complete edge-id lists), edges with per-site tables; returns the og.from_automaton op"""
    if L is None:
        L = int(rng.integers(1, 6))
    nn = int(rng.integers(2, 6))
    lo = int(rng.integers(-3, 4))
    nids = [int(x) for x in rng.permutation(np.arange(lo, lo + nn))]
    t0, t1 = nids[0], nids[1]
    if rng.random() < 0.08:
        t1 = t0
    pairs = []
    if ensure_path:
        pairs += [(t0, t0), (t1, t1), (t0, t1)]
        if nn > 2 and rng.random() < 0.8:
            pairs += [(t0, nids[2]), (nids[2], t1)]
    for _ in range(int(rng.integers(0, 7))):
        pairs.append((nids[int(rng.integers(0, nn))], nids[int(rng.integers(0, nn))]))
    pairs = [pairs[int(i)] for i in rng.permutation(len(pairs))]
    elo = int(rng.integers(-2, 5))
    eids = [int(x) for x in rng.permutation(np.arange(elo, elo + len(pairs)))]

    def opics():
        return [[int(rng.integers(0, 4)), enc(float(rng.choice([-1.0, 0.5, 1.0, 1.0, 2.0])))]
                for _ in range(int(rng.integers(1, 3)) if rng.random() < 0.9 else 0)]
    edges = []
    for eid, (x, y) in zip(eids, pairs):
        r = rng.random()
        op = {'const': opics()} if r < 0.6 else {'table': [opics() for _ in range(L)]}
        r = rng.random()
        if r < 0.6:
            ac = {'const': True}
        elif r < 0.68:
            ac = {'const': False}
        else:
            ac = {'table': [bool(rng.random() < 0.7) for _ in range(L)]}
        edges.append([eid, [x, y], op, ac])
    charged = rng.random() < 0.3
    nodes = []
    for n in [nids[int(i)] for i in rng.permutation(nn)]:
        ein = [e[0] for e in edges if e[1][1] == n]
        eout = [e[0] for e in edges if e[1][0] == n]
        nodes.append([n, ein, eout, int(rng.integers(-1, 2)) if charged else 0])
    return {'op': 'og.from_automaton', 'nodes': nodes, 'edges': edges, 'term': [t0, t1], 'length': L}


def shape_cls(st):
    """(layer widths, #edges, #multi-operator edges) of a serialised graph state, or None"""
    if not isinstance(st, dict) or 'graph' not in st:
        return None
    g = st['graph']
    return (len(g['nodes']), len(g['edges']), sum(1 for e in g['edges'] if len(e[3]) > 1), len(st.get('den', [])))

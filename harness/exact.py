"""Exact JSON encoding of NumPy data for the Lean driver (integers / dyadic rationals / Gaussian rationals)."""
from fractions import Fraction
import numpy as np


class Inexact(Exception):
    """A value is not exactly representable with a small dyadic denominator: the case is skipped, not compared."""


MAXDEN = 1 << 40
MAXNUM = 1 << 52


def enc_real(x):
    if isinstance(x, (int, np.integer)):
        return int(x)
    xf = float(x)
    if xf != xf or xf in (float('inf'), float('-inf')):
        raise Inexact('nan/inf')
    fr = Fraction(xf)
    # dyadic rationals: a small numerator over ANY power of two is fine (uniformly scaled data, e.g. entries of size 2^-60,
    # behave exactly like unscaled data); what is excluded are values carrying many significant bits
    if abs(fr.numerator) > MAXNUM or (fr.denominator > MAXDEN and abs(fr.numerator) > (1 << 30)) or fr.denominator > (1 << 600):
        raise Inexact(f'{xf!r}')
    if fr.denominator == 1:
        return int(fr.numerator)
    return [int(fr.numerator), int(fr.denominator)]


def enc_scalar(z):
    if isinstance(z, (complex, np.complexfloating)):
        if z.imag == 0:
            return enc_real(z.real)
        return {'re': enc_real(z.real), 'im': enc_real(z.imag)}
    return enc_real(z)


def enc_array(a):
    a = np.asarray(a)

    def rec(x):
        if x.ndim == 0:
            return enc_scalar(x[()])
        return [rec(y) for y in x]
    return {'shape': [int(s) for s in a.shape], 'data': rec(a)}


def enc_reals(v):
    return [enc_real(x) for x in np.asarray(v).reshape(-1)]


def enc_ints(v):
    return [int(x) for x in np.asarray(v).reshape(-1)]


def frac(x):
    return Fraction(float(x))

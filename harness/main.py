import argparse, importlib, json, os, sys
from . import common


def main():
    if len(sys.argv) >= 2 and sys.argv[1] == 'replay':
        path = sys.argv[2]
        rp = json.load(open(path))
        pid = rp['property']
        prop = importlib.import_module(f'harness.props.{pid.lower()}')
        sys.exit(prop.replay(rp))
    ap = argparse.ArgumentParser()
    ap.add_argument('pid')
    ap.add_argument('--tier', default=os.environ.get('VERIF_TIER', 'quick'))
    ap.add_argument('--seed', type=int, default=int(os.environ.get('VERIF_SEED', '0')))
    a = ap.parse_args()
    prop = importlib.import_module(f'harness.props.{a.pid.lower()}')
    sys.exit(common.check_main(a.pid, prop, a.tier, a.seed))


main()

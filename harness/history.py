"""
Operation histories on a pool of MPS/MPO objects (C02, C19): the real pytenet calls run under uninterpreted kernels,
every step is compared with the Lean model (`hist.run`), byte-level snapshots of *all* pool objects and the
`np.shares_memory` relation are taken after every step.
"""
import numpy as np
from . import exact, gen, kernels, krylov_kernels, mpsgen, common
from .common import py_call


def too_big(obj):
    from .evolib import too_big as tb
    return tb(obj)


def cls_of(o):
    return 'MPO' if o.A and o.A[0].ndim == 4 or type(o).__name__ == 'MPO' else 'MPS'


def enc_obj(o):
    return {'cls': type(o).__name__, 'obj': mpsgen.enc_mp(o)}


def arrays_of(o):
    return [o.qd] + [q for q in o.qD if isinstance(q, np.ndarray)] + [a for a in o.A if isinstance(a, np.ndarray)]


def wf(o):
    return mpsgen.is_wf_mpo(o) if type(o).__name__ == 'MPO' else mpsgen.is_wf_mps(o)


def init_pool(rng, nmps=2, nmpo=2, maxD=3):
    if rng.random() < 0.25:
        return []       # history from nothing: every object is created by a constructor step (Model/OpsX.lean)
    L = int(rng.integers(1, 5)); d = int(rng.integers(1, 3))
    qd = mpsgen.rand_qd(rng, d)
    bnd = (int(rng.integers(-1, 2)), int(rng.integers(-1, 3)))
    obnd = (0, 0) if rng.random() < 0.7 else (int(rng.integers(-1, 2)), int(rng.integers(-1, 2)))
    if rng.random() < 0.6:
        # pools on which the TDVP / DMRG steps are admissible and small (L <= 3, D <= 2, operator boundary charges (0, 0))
        L = int(rng.integers(1, 4)); obnd = (0, 0); maxD = 2
    pool = []
    for _ in range(nmps):
        pool.append(mpsgen.rand_mps(rng, L=L, qd=qd, maxD=maxD, boundary=bnd, dtype=str(rng.choice(['int', 'float', 'complex']))))
    for _ in range(nmpo):
        pool.append(mpsgen.rand_mpo(rng, L=L, qd=qd, maxD=2, boundary=obnd, dtype=str(rng.choice(['int', 'float', 'complex']))))
    return pool


def int_overflow_risk(pool, op):
    """integer storage (int8 ... int64) wraps around silently in NumPy; the model computes with unbounded integers.  A step
    whose exact result may leave the range of its integer result type ends the history (outside the exact comparison)."""
    h = op.get('h')
    if h not in ('add_mps', 'add_mpo', 'mul_mpo', 'apply'):
        return False
    try:
        a, b = pool[op['i']], pool[op['j']]
        for x, y in zip(a.A, b.A):
            rt = np.result_type(x.dtype, y.dtype)
            if rt.kind not in 'iu':
                continue
            mx, my = int(np.abs(x.astype(object)).max(initial=0)), int(np.abs(y.astype(object)).max(initial=0))
            bound = mx + my if h.startswith('add') else mx * my * max(x.shape[0], x.shape[1] if x.ndim == 4 else 1)
            if bound > np.iinfo(rt).max:
                return True
    except Exception:
        return False
    return False


def same_boundary(a, b):
    return np.array_equal(a.qD[0], b.qD[0]) and np.array_equal(a.qD[-1], b.qD[-1])


def maxbond(o):
    return max([len(q) for q in o.qD] + [0])


def nondeg(*objs):
    """no bond of dimension 0 (such bonds arise only when an uninterpreted SVD kernel returns an all-zero spectrum for a
    non-zero matrix, or for tol >= 1; NumPy's np.block / tensordot then raise on empty operands where the index formulas of the
    model return empty tensors: outside the domain of the binary operations)"""
    return all(len(q) >= 1 for o in objs for q in o.qD)


def choose_op(rng, pool, allow_invalid=0.03):
    """pick a (mostly valid) next operation; returns the op dict (model encoding)"""
    idx_mps = [i for i, o in enumerate(pool) if type(o).__name__ == 'MPS']
    idx_mpo = [i for i, o in enumerate(pool) if type(o).__name__ == 'MPO']
    for _ in range(50):
        k = int(rng.integers(0, 21)) if len(pool) >= 3 else int(rng.integers(16, 20))
        mode = 'left' if rng.random() < 0.5 else 'right'
        if k in (16, 17, 18) and len(pool) < 9:
            # constructors: take the physical charges / length of an existing object most of the time (compatible operands)
            if pool and rng.random() < 0.8:
                ref = pool[int(rng.integers(0, len(pool)))]
                qd = [int(x) for x in ref.qd]; L = len(ref.A)
            else:
                qd = [int(x) for x in mpsgen.rand_qd(rng, int(rng.integers(1, 3)))]; L = int(rng.integers(1, 4))
            fill = [1, 0, 2.0, -0.5, 1 + 1j, 3][int(rng.integers(0, 6))]
            if k in (16, 17):
                bl = 1 if rng.random() > allow_invalid else 2
                qD = [[int(rng.integers(-1, 2))] * bl] + [[int(x) for x in rng.integers(-1, 2, size=int(rng.integers(1, 3)))] for _ in range(max(L - 1, 0))] \
                    + [[int(rng.integers(-1, 3))] * bl]
                if L == 0 or (rng.random() < allow_invalid):
                    # (MPO(qd, [], fill) returns a degenerate object without any bond list in Python, the model rejects the
                    # empty list: outside the domain; MPS(qd, [], fill) raises IndexError on both sides)
                    qD = qD[:1] if (rng.random() < 0.5 or k == 17) else []
                return {'h': 'new_mps' if k == 16 else 'new_mpo', 'qd': qd, 'qD': qD, 'fill': fill}
            if rng.random() < 0.5:
                return {'h': 'identity', 'qd': qd, 'L': L, 'scale': [1, 2, -0.5, 1j][int(rng.integers(0, 4))]}
            from . import oglib
            from .props import c05
            for _try in range(8):
                raw, Lg, charged = oglib.gen_layered_graph(rng, L=int(rng.integers(1, 4)))
                # graphs whose only source / sink are the terminals (a dead end next to the end node passes is_consistent() but
                # gives an MPO with a trailing bond of dimension 2, which the in-place algorithms do not accept)
                if all((n[2] or n[0] == raw['term'][1]) and (n[1] or n[0] == raw['term'][0]) for n in raw['nodes']):
                    break
            else:
                continue
            o5 = c05.mpo_op(raw, rng, charged, nid_map=False, d=2)
            return {'h': 'from_opgraph', 'graph': o5['graph'], 'qd': o5['qd'], 'opmap': o5['opmap']}
        if k in (19, 20) and idx_mps:
            i = int(rng.choice(idx_mps)); L = len(pool[i].A)
            if nondeg(pool[i]) and (L >= 2 or rng.random() < allow_invalid):
                return {'h': 'resplit', 'i': i, 'site': int(rng.integers(0, max(L - 1, 1))), 'distr': int(rng.integers(0, 3)),
                        'tol': float(rng.choice([0, 0, 0.25, 0.125]))}
        if k == 0 and idx_mps:
            return {'h': 'ortho_mps', 'i': int(rng.choice(idx_mps)), 'mode': mode}
        if k == 1 and idx_mpo:
            return {'h': 'ortho_mpo', 'i': int(rng.choice(idx_mpo)), 'mode': mode}
        if k in (2, 3) and idx_mps:
            return {'h': 'compress', 'i': int(rng.choice(idx_mps)), 'mode': mode, 'tol': float(rng.choice([0, 0, 0.125, 0.25, 0.5]))}
        if k == 4 and len(idx_mps) >= 1:
            i, j = int(rng.choice(idx_mps)), int(rng.choice(idx_mps))
            ok = len(pool[i].A) == len(pool[j].A) and same_boundary(pool[i], pool[j]) and maxbond(pool[i]) + maxbond(pool[j]) <= 8 and np.array_equal(pool[i].qd, pool[j].qd)
            if nondeg(pool[i], pool[j]) and (ok or rng.random() < allow_invalid):
                return {'h': 'add_mps', 'i': i, 'j': j, 'alpha': 1 if rng.random() < 0.5 else -1}
        if k == 5 and len(idx_mpo) >= 1:
            i, j = int(rng.choice(idx_mpo)), int(rng.choice(idx_mpo))
            ok = len(pool[i].A) == len(pool[j].A) and same_boundary(pool[i], pool[j]) and maxbond(pool[i]) + maxbond(pool[j]) <= 6 and np.array_equal(pool[i].qd, pool[j].qd)
            if nondeg(pool[i], pool[j]) and (ok or rng.random() < allow_invalid):
                return {'h': 'add_mpo', 'i': i, 'j': j, 'alpha': 1 if rng.random() < 0.5 else -1}
        if k == 6 and idx_mpo:
            i, j = int(rng.choice(idx_mpo)), int(rng.choice(idx_mpo))
            if nondeg(pool[i], pool[j]) and maxbond(pool[i]) * maxbond(pool[j]) <= 6 and ((len(pool[i].A) == len(pool[j].A) and np.array_equal(pool[i].qd, pool[j].qd)) or rng.random() < allow_invalid):
                return {'h': 'mul_mpo', 'i': i, 'j': j}
        if k == 7 and idx_mpo and idx_mps:
            i, j = int(rng.choice(idx_mpo)), int(rng.choice(idx_mps))
            if nondeg(pool[i], pool[j]) and maxbond(pool[i]) * maxbond(pool[j]) <= 8 and ((len(pool[i].A) == len(pool[j].A) and np.array_equal(pool[i].qd, pool[j].qd)) or rng.random() < allow_invalid):
                return {'h': 'apply', 'i': i, 'j': j}
        if k == 10 and len(pool) < 9:
            d = int(rng.integers(1, 3)); ns = int(rng.integers(1, 4))
            v = gen.exact_values(rng, (d ** ns,), str(rng.choice(['int', 'float', 'complex'])))
            if allow_invalid == 0.0 and not np.any(v):
                pass        # (the zero vector is in the domain since the repair of F12)
            return {'h': 'from_vector', 'd': d, 'nsites': ns, 'v': [complex(x) for x in v], 'tol': float(rng.choice([0, 0, 0.25, 0.5, 0.125]))}
        if k in (11, 12, 13, 14, 15) and idx_mps and idx_mpo:
            kind = ['tdvp1', 'tdvp2', 'dmrg1', 'dmrg2', 'tdvp1'][k - 11] if k < 15 else str(rng.choice(['tdvp2', 'dmrg1', 'dmrg2']))
            i, iH = int(rng.choice(idx_mps)), int(rng.choice(idx_mpo))
            psi, H = pool[i], pool[iH]
            L = len(psi.A)
            ok = (len(H.A) == L and L <= 3 and (L >= 2 or kind in ('tdvp1', 'dmrg1')) and maxbond(psi) <= 2 and maxbond(H) <= 2
                  and np.array_equal(psi.qd, H.qd) and len(H.qD[0]) == 1 and len(H.qD[-1]) == 1
                  and int(H.qD[0][0]) == 0 and int(H.qD[-1][0]) == 0 and len(psi.qD[0]) == 1 and len(psi.qD[-1]) == 1)
            if ok:
                op = {'h': kind, 'iH': iH, 'i': i, 'numsteps': 1, 'numiter': int(rng.integers(1, 3))}
                if kind.startswith('tdvp'):
                    op['dt'] = complex(rng.choice([0.5j, 0.25j, 0.5]))
                if kind.endswith('2'):
                    op['tol'] = float(rng.choice([0, 0, 0.25]))
                return op
        if k == 8 and rng.random() < 0.3:
            return {'h': 'zero_q', 'i': int(rng.integers(0, len(pool)))}
        if k == 9 and rng.random() < 0.3 and len(pool) < 9:
            return {'h': 'copy', 'i': int(rng.integers(0, len(pool)))}
    return {'h': 'copy', 'i': 0}


INPLACE_EVO = ('tdvp1', 'tdvp2', 'dmrg1', 'dmrg2')
INPLACE = ('ortho_mps', 'ortho_mpo', 'compress', 'zero_q', 'resplit') + INPLACE_EVO


def apply_op(pool, op, rec):
    """execute one op on the real objects (in place / appending); returns list of scalar outputs"""
    with kernels.patched(rec, ('bond_ops', 'mps', 'mpo')), kernels.patched_abs(rec), krylov_kernels.patched(rec):
        return apply_op_real(pool, op)


def apply_op_real(pool, op):
    """the real pytenet calls of one op (kernels as they are: patched by the caller or the real ones)"""
    import pytenet as ptn
    h = op['h']
    if True:
        if h == 'from_vector':
            pool.append(ptn.MPS.from_vector(op['d'], op['nsites'], np.array(op['v']), tol=op['tol']))
            return []
        if h == 'new_mps':
            pool.append(ptn.MPS(op['qd'], op['qD'], fill=op['fill']))
            return []
        if h == 'new_mpo':
            pool.append(ptn.MPO(op['qd'], op['qD'], fill=op['fill']))
            return []
        if h == 'identity':
            pool.append(ptn.MPO.identity(op['qd'], op['L'], scale=op['scale']))
            return []
        if h == 'from_opgraph':
            from . import oglib
            pool.append(ptn.MPO.from_opgraph(op['qd'], oglib.build_graph(op['graph']), oglib.opmap_of(op['opmap'])))
            return []
        if h == 'resplit':
            psi = pool[op['i']]
            if type(psi).__name__ != 'MPS':
                raise TypeError('wrong class')
            st = op['site']
            A0, A1 = psi.A[st], psi.A[st + 1]
            Am = ptn.merge_mps_tensor_pair(A0, A1)
            B0, B1, qb = ptn.split_mps_tensor(Am, psi.qd, psi.qd, [psi.qD[st], psi.qD[st + 2]], ['left', 'right', 'sqrt'][op['distr']], op['tol'])
            psi.A[st], psi.A[st + 1], psi.qD[st + 1] = B0, B1, qb
            return []
        if h in INPLACE_EVO:
            H, psi = pool[op['iH']], pool[op['i']]
            if type(H).__name__ != 'MPO' or type(psi).__name__ != 'MPS':
                raise TypeError('wrong class')
            if h == 'tdvp1':
                return [ptn.integrate_local_singlesite(H, psi, op['dt'], op['numsteps'], numiter_lanczos=op['numiter'])]
            if h == 'tdvp2':
                return [ptn.integrate_local_twosite(H, psi, op['dt'], op['numsteps'], numiter_lanczos=op['numiter'], tol_split=op['tol'])]
            if h == 'dmrg1':
                return list(ptn.calculate_ground_state_local_singlesite(H, psi, op['numsteps'], numiter_lanczos=op['numiter']))
            return list(ptn.calculate_ground_state_local_twosite(H, psi, op['numsteps'], numiter_lanczos=op['numiter'], tol_split=op['tol']))
        if h == 'ortho_mps' or h == 'ortho_mpo':
            o = pool[op['i']]
            if type(o).__name__ != ('MPS' if h == 'ortho_mps' else 'MPO'):
                raise TypeError('wrong class')
            return [o.orthonormalize(mode=op['mode'])]
        if h == 'compress':
            o = pool[op['i']]
            if type(o).__name__ != 'MPS':
                raise TypeError('wrong class')
            nrm, sc = o.compress(op['tol'], mode=op['mode'])
            return [nrm, sc]
        if h == 'add_mps' or h == 'add_mpo':
            a, b = pool[op['i']], pool[op['j']]
            r = (a + b) if op['alpha'] == 1 else (a - b)
            pool.append(r)
            return []
        if h == 'mul_mpo':
            pool.append(pool[op['i']] @ pool[op['j']])
            return []
        if h == 'apply':
            pool.append(ptn.apply_operator(pool[op['i']], pool[op['j']]))
            return []
        if h == 'zero_q':
            pool[op['i']].zero_qnumbers()
            return []
        if h == 'copy':
            o = pool[op['i']]
            pool.append(mpsgen.copy_mpo(o) if type(o).__name__ == 'MPO' else mpsgen.copy_mps(o))
            return []
    raise ValueError(h)


def sharing(pool, idxs):
    """pairs (i, j) such that an array of pool[i] (i in idxs) shares memory with an array of another pool object j,
    or two different arrays inside pool[i] share memory"""
    out = []
    for i in idxs:
        ai = arrays_of(pool[i])
        for j, o in enumerate(pool):
            if j == i:
                continue
            if any(np.shares_memory(x, y) for x in ai for y in arrays_of(o)):
                out.append([i, j])
        for a in range(len(ai)):
            for b in range(a + 1, len(ai)):
                if np.shares_memory(ai[a], ai[b]):
                    out.append([i, i])
    return out


def run_history(rng, nsteps, pool=None):
    """
    Returns (driver_op, impl_steps, meta).  impl_steps mirror the driver's per-step replies.
    """
    pool = pool if pool is not None else init_pool(rng)
    pool_enc = [enc_obj(o) for o in pool]
    steps, impl_steps = [], []
    inexact = False
    for _ in range(nsteps):
        op = choose_op(rng, pool)
        if int_overflow_risk(pool, op):
            inexact = True
            break
        rec = krylov_kernels.KryRecorder()
        snaps = [mpsgen.snapshot(o) for o in pool]
        n_before = len(pool)

        def f():
            sc = apply_op(pool, op, rec)
            return {'scalars': [exact.enc_real(x) for x in sc]}
        try:
            r = py_call(f)
        except exact.Inexact:
            inexact = True
            break
        if rec.inexact or too_big(rec.calls) or too_big(r):
            inexact = True
            break
        enc_op = dict(op)
        if 'tol' in enc_op:
            enc_op['tol'] = exact.enc_real(enc_op['tol'])
        if 'dt' in enc_op:
            enc_op['dt'] = exact.enc_scalar(enc_op['dt'])
        if 'v' in enc_op:
            enc_op['v'] = [exact.enc_scalar(x) for x in enc_op['v']]
        for key in ('fill', 'scale'):
            if key in enc_op:
                enc_op[key] = exact.enc_scalar(enc_op[key])
        enc_op['kernels'] = rec.calls
        steps.append(enc_op)
        if not r['ok']:
            impl_steps.append(r)
            break
        target = op['i'] if op['h'] in INPLACE else None
        changed = [i for i in range(n_before) if i == target or mpsgen.snapshot(pool[i]) != snaps[i]] + list(range(n_before, len(pool)))
        try:
            r['changed'] = changed
            r['objs'] = [enc_obj(pool[i]) for i in changed]
            r['wf'] = all(wf(o) for o in pool)
            r['shared'] = sharing(pool, changed)
            if too_big(r['objs']):
                raise exact.Inexact('too big')
        except exact.Inexact:
            inexact = True
            steps.pop()
            break
        except Exception as ex:   # e.g. list-typed qD (a defect of the F3 kind): report as a type error of the step
            r = {'ok': False, 'err': 'type', 'detail': f'{type(ex).__name__}: {ex}'}
        impl_steps.append(r)
    return {'op': 'hist.run', 'pool': pool_enc, 'steps': steps}, impl_steps, {'inexact': inexact, 'final_pool': pool}

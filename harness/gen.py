"""Shared structured generators (charges, block-sparse matrices/tensors, exact values)."""
import numpy as np

INT_VALS = np.array([0, 1, -1, 2, -2, 3, 1, -1])


def charges(rng, n, kind=None):
    kind = kind if kind is not None else int(rng.integers(0, 8))
    if kind == 0:
        q = np.zeros(n, dtype=int)
    elif kind == 1:
        q = np.sort(rng.integers(-1, 2, n))
    elif kind == 2:
        q = rng.integers(-1, 2, n)
    elif kind == 3:
        q = rng.integers(0, 2, n)
    elif kind == 4:
        q = rng.integers(-3, 4, n) * int(rng.choice([1, 7, 65536]))
    elif kind == 5:
        q = np.full(n, int(rng.integers(-2, 3)))
    elif kind == 6:
        # encoded pairs (qa << 16) + qb
        q = (rng.integers(-1, 2, n) << 16) + rng.integers(-1, 2, n)
    else:
        q = -np.sort(-rng.integers(-1, 3, n))
    return q.astype(int)


def exact_values(rng, shape, dtype):
    if dtype == 'int':
        # every integer storage type, not only the platform default
        it = [np.int64, np.int64, np.int32, np.int16, np.int8][int(rng.integers(0, 5))]
        return rng.choice(INT_VALS, size=shape).astype(it)
    if dtype == 'float':
        return rng.choice(np.array([0, 1, -1, 2, 0.5, -1.5, 3, -2.0]), size=shape).astype(float)
    re = rng.choice(INT_VALS, size=shape).astype(float)
    im = rng.choice(INT_VALS, size=shape).astype(float) * (rng.random(size=shape) < 0.6)
    return (re + 1j * im).astype(complex)


def sparse_matrix(rng, q0, q1, dtype, density=0.8):
    A = exact_values(rng, (len(q0), len(q1)), dtype)
    mask = np.equal.outer(q0, q1)
    keep = rng.random(A.shape) < density
    return np.where(mask & keep, A, 0).astype(A.dtype)


def disjoint_pair(rng, m, n):
    q0 = rng.integers(0, 3, m).astype(int)
    q1 = (rng.integers(0, 3, n) + 5).astype(int)
    return q0, q1

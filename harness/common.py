"""
Shared machinery of the pytenet checks: Lean build + axiom audit + hygiene scan (proof side),
driver invocation (model side), evidence / replay writing and the decision procedure of DESIGN.md §6.1.

Run with /venv/bin/python; pytenet is imported from /repo's working tree (PYTHONPATH is set by ./check).
"""
import json, os, re, subprocess, sys, time, hashlib, shutil

VERIF = os.path.dirname(os.path.dirname(os.path.abspath(__file__)))
LEAN = os.path.join(VERIF, 'lean')
REPO = os.environ.get('PTN_REPO', '/repo')
DRIVER = os.path.join(LEAN, '.lake', 'build', 'bin', 'ptndriver')
ALLOWED_AXIOMS = {'propext', 'Classical.choice', 'Quot.sound'}
FORBIDDEN = ['sorry', 'admit', 'native_decide', 'bv_decide', 'implemented_by', 'unsafe ', 'maxHeartbeats 0', 'partial def']
TRUSTED_BASE = [
    'Lean 4.33.0 kernel (theorems re-checked by `lake build`; leanchecker in the thorough tier)',
    'axioms allowed: propext, Classical.choice, Quot.sound (audited with #print axioms on every run)',
    'Mathlib v4.33.0 modules imported by proof files',
    'hand-written Lean model of the pytenet functions named in the obligations, tied to /repo by the differential correspondence run in this check',
    'kernel contracts (QR/SVD/sort/norm/eigh/expm) are hypotheses of theorems, assumptions about NumPy/LAPACK/SciPy',
    'harness: JSON encoding, generators, CPython/NumPy semantics of the primitives pytenet calls',
]


class ToolError(Exception):
    """Timeouts and tool failures: exit code 2 (neither pass nor violation)."""


def env_threads():
    for k in ('OMP_NUM_THREADS', 'OPENBLAS_NUM_THREADS', 'MKL_NUM_THREADS'):
        os.environ.setdefault(k, '1')


def workdir(pid):
    d = os.path.join(VERIF, '.work', f'{pid}-{os.getpid()}')
    os.makedirs(d, exist_ok=True)
    return d


def run(cmd, cwd=None, timeout=1800, input=None):
    try:
        p = subprocess.run(cmd, cwd=cwd, input=input, capture_output=True, text=True, timeout=timeout)
    except subprocess.TimeoutExpired:
        raise ToolError(f'timeout: {cmd}')
    return p.returncode, p.stdout, p.stderr


# ----------------------------------------------------------------------------- proof side

_lock_path = os.path.join(VERIF, '.work', 'lake.lock')


class LakeLock:
    """lake builds of the same package must not run concurrently."""
    def __enter__(self):
        import fcntl
        os.makedirs(os.path.dirname(_lock_path), exist_ok=True)
        self.f = open(_lock_path, 'w')
        fcntl.flock(self.f, fcntl.LOCK_EX)
        return self

    def __exit__(self, *a):
        import fcntl
        fcntl.flock(self.f, fcntl.LOCK_UN)
        self.f.close()


def lake_build(targets, timeout=3000):
    """Incremental build. Returns (ok, log)."""
    with LakeLock():
        rc, out, err = run(['lake', 'build'] + list(targets), cwd=LEAN, timeout=timeout)
    return rc == 0, (out + err)[-4000:]


def load_obligations(pid):
    p = os.path.join(LEAN, 'obligations', f'{pid}.json')
    with open(p) as f:
        return json.load(f)


def strip_comments(src):
    """Remove Lean block comments (nested) and line comments, keep string literals untouched enough for scanning."""
    out = []
    i, n, depth = 0, len(src), 0
    while i < n:
        if src.startswith('/-', i):
            depth += 1; i += 2; continue
        if depth and src.startswith('-/', i):
            depth -= 1; i += 2; continue
        if depth:
            i += 1; continue
        if src.startswith('--', i):
            j = src.find('\n', i)
            i = n if j < 0 else j
            continue
        out.append(src[i]); i += 1
    return ''.join(out)


def module_closure(modules):
    """files of the PtnModel modules reachable (through `import PtnModel.…`) from the given modules, plus the driver"""
    seen, todo = set(), list(modules) + ['DriverMain']
    while todo:
        m = todo.pop()
        if m in seen:
            continue
        seen.add(m)
        p = os.path.join(LEAN, *m.split('.')) + '.lean'
        if not os.path.exists(p):
            continue
        for line in open(p):
            mm = re.match(r'\s*import\s+(PtnModel[\w.]*)', line)
            if mm:
                todo.append(mm.group(1))
    return sorted(seen)


def hygiene_scan(modules=None):
    """Comment-aware scan for forbidden constructs in every file the property's modules depend on (and the driver).
    `#print axioms` additionally exposes any sorryAx / extra axiom in the obligations themselves."""
    hits = []
    files = []
    if modules is None:
        for root, _, fs in os.walk(LEAN):
            if '.lake' in root or '.audit' in root:
                continue
            files += [os.path.join(root, fn) for fn in fs if fn.endswith('.lean')]
    else:
        files = [os.path.join(LEAN, *m.split('.')) + '.lean' for m in module_closure(modules)]
    for p in files:
        if not os.path.exists(p):
            continue
        rel = os.path.relpath(p, LEAN)
        code = strip_comments(open(p).read())
        for tok in FORBIDDEN:
            if tok == 'partial def' and rel == 'DriverMain.lean':
                continue
            if re.search(r'(?<![A-Za-z0-9_.])' + re.escape(tok), code):
                hits.append(f'{rel}: {tok.strip()}')
        if re.search(r'^\s*axiom\s', code, re.M):
            hits.append(f'{rel}: axiom')
    return hits


def audit(pid, obl):
    """
    Build the property's modules and run `#print axioms` on every obligation.
    Returns list of dicts {name, clause, ok, axioms|error}.
    """
    modules = obl['modules']
    ok, log = lake_build(modules)
    results = []
    if not ok:
        for t in obl['theorems']:
            results.append({'name': t['name'], 'clause': t.get('clause', ''), 'ok': False, 'error': 'lake build failed: ' + log[-800:]})
        return results
    os.makedirs(os.path.join(LEAN, '.audit'), exist_ok=True)
    path = os.path.join(LEAN, '.audit', f'Audit_{pid}_{os.getpid()}.lean')
    with open(path, 'w') as f:
        for m in modules:
            f.write(f'import {m}\n')
        for t in obl['theorems']:
            f.write(f'#print axioms {t["name"]}\n')
    rc, out, err = run(['lake', 'env', 'lean', path], cwd=LEAN, timeout=1200)
    os.remove(path)
    text = out + err
    for t in obl['theorems']:
        name = t['name']
        r = {'name': name, 'clause': t.get('clause', ''), 'ok': False}
        m = re.search(r"'" + re.escape(name) + r"' depends on axioms: \[([^\]]*)\]", text)
        if m:
            axs = [a.strip() for a in m.group(1).replace('\n', ' ').split(',') if a.strip()]
            r['axioms'] = axs
            r['ok'] = set(axs) <= ALLOWED_AXIOMS
            if not r['ok']:
                r['error'] = 'disallowed axioms'
        elif re.search(r"'" + re.escape(name) + r"' does not depend on any axioms", text):
            r['axioms'] = []
            r['ok'] = True
        else:
            r['error'] = 'not found by #print axioms: ' + text[-300:]
        results.append(r)
    return results


def leanchecker(modules):
    with LakeLock():
        rc, out, err = run(['lake', 'env', 'leanchecker'] + list(modules), cwd=LEAN, timeout=3000)
    return rc == 0, (out + err)[-1500:]


# ----------------------------------------------------------------------------- model side

def ensure_driver():
    ok, log = lake_build(['ptndriver'])
    return ok and os.path.exists(DRIVER), log


def drive(ops, timeout=1800):
    """Send a list of op dicts through the compiled Lean driver; returns the list of reply dicts."""
    if not ops:
        return []
    data = '\n'.join(json.dumps(o, separators=(',', ':')) for o in ops) + '\n'
    if _watch['armed']:
        import signal
        signal.alarm(int(timeout) + 60)         # the model run has a timeout of its own (a ToolError, exit 2)
    rc, out, err = run([DRIVER], input=data, timeout=timeout)
    watchdog_kick()
    if rc != 0:
        raise ToolError(f'driver exited {rc}: {err[-500:]}')
    lines = [l for l in out.split('\n') if l.strip()]
    if len(lines) != len(ops):
        raise ToolError(f'driver returned {len(lines)} lines for {len(ops)} ops: {err[-300:]}')
    return [json.loads(l) for l in lines]


def py_call(f):
    """Run a Python-side computation and map exceptions to the model's error enum."""
    watchdog_kick(_watch.get('last'))
    try:
        r = f()
        r = dict(r)
        r['ok'] = True
        return r
    except AssertionError:
        return {'ok': False, 'err': 'assertion'}
    except ValueError:
        return {'ok': False, 'err': 'value'}
    except KeyError:
        return {'ok': False, 'err': 'key'}
    except TypeError:
        return {'ok': False, 'err': 'type'}
    except IndexError:
        return {'ok': False, 'err': 'index'}
    except RuntimeError:
        return {'ok': False, 'err': 'runtime'}


def first_diff(a, b, path=''):
    """Location of the first structural difference between two JSON-like values (None if equal)."""
    if type(a) != type(b) and not (isinstance(a, (int, float)) and isinstance(b, (int, float))):
        return f'{path}: {a!r} vs {b!r}'
    if isinstance(a, dict):
        for k in sorted(set(a) | set(b)):
            if k not in a or k not in b:
                return f'{path}.{k}: missing on one side'
            d = first_diff(a[k], b[k], f'{path}.{k}')
            if d:
                return d
        return None
    if isinstance(a, list):
        if len(a) != len(b):
            return f'{path}: length {len(a)} vs {len(b)}'
        for i, (x, y) in enumerate(zip(a, b)):
            d = first_diff(x, y, f'{path}[{i}]')
            if d:
                return d
        return None
    return None if a == b else f'{path}: {a!r} vs {b!r}'


class Corr:
    """Accumulates the result of a differential correspondence run."""
    def __init__(self, name):
        self.name = name
        self.evaluations = 0
        self.classes = set()
        self.branches = {}
        self.disagreements = []     # dicts {op, impl, model, diff}
        self.samples = []
        self.skipped = 0
        self.exhaustive = False
        self.notes = []

    def add(self, op, impl, model, cls=None, branches=()):
        self.evaluations += 1
        watchdog_kick(op)
        if cls is not None:
            self.classes.add(cls)
        for b in branches:
            self.branches[b] = self.branches.get(b, 0) + 1
        d = first_diff(impl, model)
        if d is not None and len(self.disagreements) < 20:
            self.disagreements.append({'correspondence': self.name, 'op': op, 'impl': impl, 'model': model, 'diff': d})
        elif d is not None:
            self.disagreements.append(None)
        if len(self.samples) < 3 and self.evaluations % 97 in (1, 40, 80):
            self.samples.append({'op': op, 'reply': model})
        return d is None

    def n_disagree(self):
        return len(self.disagreements)


# ----------------------------------------------------------------------------- findings / output

def load_known():
    known, fixed = [], []
    p = os.path.join(VERIF, 'known_findings.txt')
    if os.path.exists(p):
        for line in open(p):
            line = line.strip()
            m = re.match(r'known:\s+property=(\S+)\s+key=(\S+)\s*(.*)', line)
            if m:
                known.append({'property': m.group(1), 'key': m.group(2), 'what': m.group(3)})
            elif line.startswith('fixed:'):
                fixed.append(line)
    return known, fixed


def write_json(path, obj):
    os.makedirs(os.path.dirname(path), exist_ok=True)
    tmp = path + f'.tmp{os.getpid()}'
    with open(tmp, 'w') as f:
        json.dump(obj, f, indent=1, default=str)
    os.replace(tmp, path)


def jsonable(x):
    import numpy as np
    if isinstance(x, np.ndarray):
        return x.tolist()
    if isinstance(x, (np.integer,)):
        return int(x)
    if isinstance(x, (np.floating,)):
        return float(x)
    if isinstance(x, (np.complexfloating, complex)):
        return [float(x.real), float(x.imag)]
    if isinstance(x, dict):
        return {str(k): jsonable(v) for k, v in x.items()}
    if isinstance(x, (list, tuple)):
        return [jsonable(v) for v in x]
    return x


def _search_child(conn, prop, tier, seed, hints, budget):
    import signal, traceback
    signal.signal(signal.SIGALRM, _on_alarm)
    signal.alarm(int(budget) + STALL_S)
    try:
        conn.send((prop.search(tier, seed, hints, budget), None))
    except WatchdogTimeout:
        tb = traceback.format_exc()
        conn.send((None, 'the failing-input search did not finish within its budget + %d s; stack at the time:\n%s' % (STALL_S, tb[-3000:])))
    except BaseException as ex:            # an oracle that crashes must not pass for "nothing found"
        conn.send((None, 'the failing-input search raised %s: %s\n%s' % (type(ex).__name__, ex, traceback.format_exc()[-3000:])))
    finally:
        signal.alarm(0)
        conn.close()


def run_search(prop, tier, seed, hints, budget):
    """prop.search in a forked child, so that a call of the code under test that never returns cannot hang the check:
    -> (found | None, None | text describing the stall)"""
    import multiprocessing as mp
    ctx = mp.get_context('fork')
    a, b = ctx.Pipe(duplex=False)
    pr = ctx.Process(target=_search_child, args=(b, prop, tier, seed, hints, budget))
    pr.start()
    b.close()
    res = (None, f'the failing-input search was killed after {int(budget) + 2 * STALL_S} s')
    try:
        if a.poll(int(budget) + 2 * STALL_S):
            res = a.recv()
    except (EOFError, OSError) as ex:
        res = (None, f'the failing-input search died: {ex}')
    pr.join(5)
    if pr.is_alive():
        pr.kill()
        pr.join()
    return res


def check_main(pid, prop, tier, seed):
    """
    The decision procedure shared by all checks (DESIGN.md §6.1).
    `prop` is the property module: it provides
       correspondence(tier, seed) -> list[Corr]
       search(tier, seed, hints, budget_s) -> None | {'key':..., 'what':..., 'replay': {...}}
       LEVEL_TEXT (optional)
    """
    env_threads()
    t0 = time.time()
    # (runs against a scratch copy of the repository -- seeded changes, PTN_REPO set -- must not overwrite the evidence of /repo)
    ev_dir = os.environ.get('VERIF_EVIDENCE_DIR') or (os.path.join(VERIF, 'evidence') if REPO == '/repo' else os.path.join(VERIF, '.work', 'evidence-scratch'))
    os.makedirs(ev_dir, exist_ok=True)
    ev_path = os.path.join(ev_dir, f'{pid}.json')
    broken = []          # names of theorems / correspondences that no longer check
    obl = load_obligations(pid)
    try:
        # 1. proof side
        aud = audit(pid, obl)
        for r in aud:
            if not r['ok']:
                broken.append({'kind': 'theorem', 'name': r['name'], 'detail': r.get('error', '')})
        hyg = hygiene_scan(obl['modules'])
        for h in hyg:
            broken.append({'kind': 'hygiene', 'name': h, 'detail': 'forbidden construct in lean/'})
        lc = None
        if tier == 'thorough' and not broken:
            okc, logc = leanchecker(obl['modules'])
            lc = okc
            if not okc:
                broken.append({'kind': 'leanchecker', 'name': ' '.join(obl['modules']), 'detail': logc})
        # 2. model <-> code
        okd, logd = ensure_driver()
        corrs = []
        touched = []
        if not okd:
            broken.append({'kind': 'driver-build', 'name': 'ptndriver', 'detail': logd[-800:]})
        else:
            # advisory fingerprint: if a file this property is anchored in was edited, the quick tier runs the thorough case counts
            from . import fingerprint
            touched = fingerprint.changed_files(pid, REPO)
            corr_tier = 'thorough' if (touched and tier == 'quick') else tier
            corrs = prop.correspondence(corr_tier, seed)
            for c in corrs:
                if c.n_disagree():
                    first = next(d for d in c.disagreements if d)
                    broken.append({'kind': 'correspondence', 'name': c.name, 'detail': first})
        # 3./4. decide
        violations = []
        known, _ = load_known()
        known_hits = []
        if broken:
            hints = broken
            budget = 120 if tier == 'quick' else 900
            found, stall = run_search(prop, tier, seed, hints, budget)
            if stall:
                broken.append({'kind': 'search-stall', 'name': 'failing-input search', 'detail': stall})
            if found is not None and any(k['property'] == pid and k['key'] == found.get('key') for k in known):
                # the search came back with an input of a LISTED finding: that explains nothing about what broke -- the broken
                # obligation / correspondence is still reported (a known finding never masks a different violation)
                known_hits.append(found)
                found = None
            if True:
                rp = os.path.join(VERIF, 'replays', f'{pid}-{tier}-{seed}.json')
                if found is not None:
                    write_json(rp, {'property': pid, 'kind': 'failing-input', 'broken': jsonable(broken), **jsonable(found)})
                    violations.append((rp, ''))
                else:
                    write_json(rp, {'property': pid, 'kind': 'unproved', 'no_longer_checks': jsonable(broken),
                                    'note': 'a theorem or correspondence of this property no longer checks against the current tree; '
                                            'the failing-input search on the real code found no input violating the property'})
                    violations.append((rp, ' no-failing-input-found'))
        # always-on known findings (listed defects that are still present are reported, not alarmed)
        if hasattr(prop, 'known_findings_present'):
            for k in known:
                if k['property'] == pid and prop.known_findings_present(k):
                    known_hits.append(k)
        # evidence
        n_obl = len(aud)
        n_dis = sum(1 for r in aud if r['ok'])
        cov = {
            'obligations': n_obl,
            'discharged': n_dis,
            'checker_cmd': f'cd lean && lake build {" ".join(obl["modules"])} && lake env lean <generated #print axioms file>'
                           + (' && lake env leanchecker ' + ' '.join(obl['modules']) if tier == 'thorough' else ''),
            'trusted_base': TRUSTED_BASE + obl.get('trusted_extra', []),
            'theorems': [{'name': r['name'], 'clause': r['clause'], 'axioms': r.get('axioms'), 'ok': r['ok']} for r in aud],
            'hygiene_hits': hyg,
            'leanchecker_ok': lc,
            'evaluations': sum(c.evaluations for c in corrs),
            'distinct_nontrivial': sum(len(c.classes) for c in corrs),
            'rule': getattr(prop, 'RULE', 'distinct (shape, branch-signature) classes among the generated cases'),
            'traces_validated_against_impl': sum(c.evaluations for c in corrs),
            'samples': jsonable([s for c in corrs for s in c.samples][:6]) or [{'obligation': obl['theorems'][0]['name']}],
            'correspondences': [{'name': c.name, 'evaluations': c.evaluations, 'classes': len(c.classes),
                                 'disagreements': c.n_disagree(), 'skipped': c.skipped, 'exhaustive': c.exhaustive,
                                 'branches': c.branches, 'notes': c.notes} for c in corrs],
            'exhaustive': any(c.exhaustive for c in corrs),
            'not_proved': obl.get('not_proved', []),
            'source_fingerprint_changed': touched if okd else None,
        }
        evidence = {
            'property_id': pid, 'tier': tier, 'seed': seed, 'level': 'proof',
            'coverage': cov,
            'assumptions': obl.get('assumptions', []),
            'wall_s': round(time.time() - t0, 2),
            'violations': len(violations),
        }
        write_json(ev_path, evidence)
        for k in known_hits:
            print(f'KNOWN-FINDING: property={pid} {k.get("what", k.get("key"))}')
        if violations:
            for rp, suffix in violations:
                print(f'VIOLATION property={pid} replay={rp}{suffix}')
            return 1
        print(f'OK property={pid} tier={tier} seed={seed} obligations={n_dis}/{n_obl} '
              f'corr_evals={cov["evaluations"]} classes={cov["distinct_nontrivial"]} wall={evidence["wall_s"]}s')
        return 0
    except ToolError as e:
        print(f'TOOL-ERROR property={pid}: {e}', file=sys.stderr)
        return 2
    finally:
        shutil.rmtree(os.path.join(VERIF, '.work', f'{pid}-{os.getpid()}'), ignore_errors=True)


# ----------------------------------------------------------------------------- parallel correspondence helper

class CaseTimeout(Exception):
    pass


def with_alarm(seconds, f):
    """Run f() with a wall-clock limit (non-termination is an observable outcome for some properties)."""
    import signal

    def handler(signum, frame):
        raise CaseTimeout()
    old = signal.signal(signal.SIGALRM, handler)
    signal.setitimer(signal.ITIMER_REAL, seconds)
    try:
        return f()
    finally:
        signal.setitimer(signal.ITIMER_REAL, 0)
        signal.signal(signal.SIGALRM, old)


def merge_corr(name, parts):
    c = Corr(name)
    for p in parts:
        c.evaluations += p.evaluations
        c.classes |= p.classes
        for k, v in p.branches.items():
            c.branches[k] = c.branches.get(k, 0) + v
        c.disagreements += p.disagreements
        c.samples += p.samples
        c.skipped += p.skipped
        c.notes += p.notes
    c.samples = c.samples[:4]
    c.disagreements.sort(key=lambda d: (d is None, len(json.dumps(jsonable(d['op']))) if d else 0))
    return c


class WatchdogTimeout(BaseException):
    """raised (from a SIGALRM handler) inside a correspondence shard or a failing-input search that made no progress for
    STALL_S seconds: the code under test does not terminate (or is slower by orders of magnitude) on some generated input.
    A BaseException on purpose: the per-case `except Exception` clauses of the harness must not swallow it."""


STALL_S = int(os.environ.get('PTN_STALL_S', '150'))
_watch = {'armed': False, 'last': None}


def _on_alarm(signum, frame):
    raise WatchdogTimeout(f'no progress for {STALL_S} s')


def watchdog_arm():
    import signal
    signal.signal(signal.SIGALRM, _on_alarm)
    signal.alarm(STALL_S)
    _watch['armed'] = True


def watchdog_kick(op=None):
    """progress: called for every compared case (Corr.add) and every oracle iteration"""
    if _watch['armed']:
        import signal
        signal.alarm(STALL_S)
        _watch['last'] = op


def watchdog_off():
    import signal
    signal.alarm(0)
    _watch['armed'] = False


def _shard_worker(args):
    fn, name, shard, nshards, tier, seed = args
    env_threads()
    global STALL_S
    if 'PTN_STALL_S' not in os.environ:
        STALL_S = 150 if tier == 'quick' else 600
    watchdog_arm()
    try:
        return fn(name, shard, nshards, tier, seed)
    except WatchdogTimeout as ex:
        # a hang of the implementation is a behavioural difference from the (total, fuel-bounded) model: it breaks the
        # correspondence, and the failing-input search decides what it means for the property
        c = Corr(name)
        c.evaluations = 1
        c.disagreements.append({'correspondence': name, 'op': {'watchdog': f'shard {shard}/{nshards}', 'after_case': jsonable(_watch['last'])},
                                'impl': f'the call following the last compared case did not return: {ex}', 'model': 'returns (the model is total)',
                                'diff': 'non-termination / stall of the code under test'})
        return c
    except Exception as ex:
        # the generator / harness itself tripped over what the code under test returned (e.g. an inconsistent object that
        # the unchanged code never produces): also a broken correspondence, never a crash of the check
        import traceback
        c = Corr(name)
        c.evaluations = 1
        c.disagreements.append({'correspondence': name, 'op': {'harness-exception': f'shard {shard}/{nshards}', 'after_case': jsonable(_watch['last'])},
                                'impl': f'{type(ex).__name__}: {ex}\n' + traceback.format_exc()[-1500:], 'model': 'n/a',
                                'diff': 'exception outside a compared call (state produced by the code under test is not what the generators can handle)'})
        return c
    finally:
        watchdog_off()


def parallel_shards(fn, name, tier, seed, nshards=None):
    """fn(name, shard, nshards, tier, seed) -> Corr, run in a fork pool and merged."""
    import multiprocessing as mp
    nshards = nshards or min(16, os.cpu_count() or 1)
    ctx = mp.get_context('fork')
    with ctx.Pool(nshards) as pool:
        parts = pool.map(_shard_worker, [(fn, name, s, nshards, tier, seed) for s in range(nshards)])
    return merge_corr(name, parts)
